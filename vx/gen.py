"""Template processor: units/<unit>.vrs + /repo sources -> one Verus file.

A template is Verus source text (spec fns, lemmas, container `impl` headers, assumed specs) with
directive blocks that pull *real* items out of /repo, apply the recorded rewrite rules and splice
contracts in.  Nothing of the executable code is hand-copied: every `//@fn`, `//@type`, `//@item`
block is re-extracted from the working tree on every run.

Directive grammar (line oriented, every block ends with `//@end`):

  //@fn   <file> :: <scope> :: ... :: fn <name>   {opt=..} ...
  //@type <file> :: [<scope> ::] struct|enum <Name>
  //@item <file> :: [<scope> ::] static|const|type <NAME>
      //@| <contract text>            lines copied verbatim between signature and body
      //@loop <k> | <text>            text spliced between header and `{` of the k-th loop
      //@before "<anchor>" [#n] | <text>    a line inserted before the n-th source line containing anchor
      //@after  "<anchor>" [#n] | <text>
      //@replace "<old>" => "<new>" [#n|#all]   literal replacement in the item text (recorded)
      //@resub  "<regex>" => "<new>"            regex replacement (recorded)
  //@end
  //@props C07 C17        tags the template text that follows (spec fns / lemmas / assumed specs)
  //@global-replace "<old>" => "<new>"      applied to every extracted item of the unit (recorded)
  //@global-resub "<regex>" => "<new>"

Options: props=C01,C02  name=<new fn name>  has=<text that the item header must contain>
         subst=$ty:u8   ret=<name of the result>  external_body  nobody (signature only, `;`)
         first (take the first match if several)
"""
import hashlib
import os
import re
import sys

from . import rustlex as rl


class GenError(Exception):
    """Lost anchor / unsupported construct: infrastructure failure (exit 2), never an alarm."""


# ---------------------------------------------------------------------------------------------
# locating items


def _strip_attrs_comments(toks):
    """Return code text of a header without attributes and comments."""
    out = []
    j = 0
    n = len(toks)
    while j < n:
        t = toks[j]
        if t.kind == "punct" and t.text == "#":
            k = j + 1
            while k < n and toks[k].kind == "ws":
                k += 1
            if k < n and toks[k].text == "!":
                k += 1
            if k < n and toks[k].text == "[":
                j = rl.match_close(toks, k) + 1
                continue
        out.append(t)
        j += 1
    return rl.code_text(out)


def _norm(s):
    return re.sub(r"\s+", " ", s).strip()


def _hdr_matches(hdr_code, raw_hdr, pat, has):
    p = _norm(pat)
    if has and has not in raw_hdr:
        return False
    m = re.match(r"^(fn|struct|enum|trait|macro|mod|union)\s+(\S+)$", p)
    if m:
        kw, name = m.groups()
        if kw == "macro":
            return re.search(r"\bmacro_rules\s*!\s*%s\b" % re.escape(name), hdr_code) is not None
        return re.search(r"\b%s\s+%s\b(?![A-Za-z0-9_])" % (kw, re.escape(name)), hdr_code) is not None
    # impl headers and anything else: whitespace-insensitive substring, anchored at a word start
    a = re.sub(r"\s+", "", p)
    b = re.sub(r"\s+", "", hdr_code)
    if p.startswith("impl"):
        # must match the header up to its end or a `where`
        bb = re.sub(r"\s+", "", re.split(r"\bwhere\b", hdr_code)[0])
        # drop generic parameter list directly after `impl` for comparison convenience
        bb2 = re.sub(r"^((?:unsafe)?impl)<[^>]*(?:<[^>]*>[^>]*)*>", r"\1", bb)
        return a == bb or a == bb2
    return a in b


def all_blocks(toks, lo, hi):
    """Every brace block at any depth in toks[lo:hi] (used for items inside macro_rules bodies)."""
    j = lo
    start = lo
    while j < hi:
        t = toks[j]
        if t.kind == "punct":
            if t.text == "{":
                k = rl.match_close(toks, j)
                yield (start, j, k)
                for x in all_blocks(toks, j + 1, k):
                    yield x
                j = k + 1
                start = j
                continue
            if t.text in ("(", "["):
                k = rl.match_close(toks, j)
                for x in all_blocks(toks, j + 1, k):
                    yield x
                j = k + 1
                continue
            if t.text == ";":
                start = j + 1
        j += 1


def find_scope(toks, lo, hi, pat, has=None, first=False):
    """Find the unique block directly inside toks[lo:hi] whose header matches pat."""
    hits = []
    deep = pat.startswith("..")
    if deep:
        pat = pat[2:]
    for (h, b, c) in (all_blocks(toks, lo, hi) if deep else rl.blocks(toks, lo, hi)):
        raw = "".join(t.text for t in toks[h:b])
        code = _strip_attrs_comments(toks[h:b])
        if _hdr_matches(code, raw, pat, has):
            hits.append((h, b, c))
    if not hits:
        return None
    if len(hits) > 1 and not first:
        raise GenError("ambiguous scope %r (%d matches)" % (pat, len(hits)))
    return hits[0]


def find_stmt_item(toks, lo, hi, kw, name):
    for (s, e) in rl.statements(toks, lo, hi):
        code = _strip_attrs_comments(toks[s:e])
        if re.search(r"\b%s\s+(mut\s+)?%s\b" % (kw, re.escape(name)), code):
            return (s, e)
    return None


class Source:
    cache = {}

    def __init__(self, root, rel):
        self.path = os.path.join(root, rel)
        self.rel = rel
        try:
            self.text = open(self.path, encoding="utf-8").read()
        except OSError as e:
            raise GenError("cannot read %s: %s" % (rel, e))
        self.toks = rl.lex(self.text)

    @classmethod
    def get(cls, root, rel):
        key = (root, rel)
        if key not in cls.cache:
            cls.cache[key] = Source(root, rel)
        return cls.cache[key]

    def line_of(self, off):
        return self.text.count("\n", 0, off) + 1


def find_scopes(toks, lo, hi, pat, has=None):
    hits = []
    deep = pat.startswith("..")
    if deep:
        pat = pat[2:]
    for (h, b, c) in (all_blocks(toks, lo, hi) if deep else rl.blocks(toks, lo, hi)):
        raw = "".join(t.text for t in toks[h:b])
        code = _strip_attrs_comments(toks[h:b])
        if _hdr_matches(code, raw, pat, has):
            hits.append((h, b, c))
    return hits


def _locate_in(src, toks, lo, hi, scopes, has, first):
    pat = scopes[0]
    last = len(scopes) == 1
    if last:
        m = re.match(r"^(static|const|type)\s+(\S+)$", _norm(pat))
        if m:
            r = find_stmt_item(toks, lo, hi, m.group(1), m.group(2))
            return [(r[0], r[1], None)] if r else []
        hits = find_scopes(toks, lo, hi, pat, has)
        if not hits:
            m2 = re.match(r"^(struct)\s+(\S+)$", _norm(pat))
            if m2:
                r2 = find_stmt_item(toks, lo, hi, m2.group(1), m2.group(2))
                if r2 is not None:
                    return [(r2[0], r2[1], None)]
        return [(h, c + 1, b) for (h, b, c) in hits]
    res = []
    for (h, b, c) in find_scopes(toks, lo, hi, pat, None):
        res += _locate_in(src, toks, b + 1, c, scopes[1:], has, first)
    return res


def locate(src, scopes, has=None, first=False):
    """Return (tok_lo, tok_hi, body_brace_idx or None) for the item named by the scope path.
    Intermediate scopes may match several blocks (e.g. two `impl Error`); the item must be unique."""
    hits = _locate_in(src, src.toks, 0, len(src.toks), scopes, has, first)
    if not hits:
        raise GenError("lost anchor: %s :: %s" % (src.rel, " :: ".join(scopes)))
    if len(hits) > 1 and not first:
        raise GenError("ambiguous item %s :: %s (%d matches)" % (src.rel, " :: ".join(scopes), len(hits)))
    return hits[0]


# ---------------------------------------------------------------------------------------------
# rewrite rules (R0..): each is recorded in the extraction record when it fires


def strip_r0(toks):
    """R0: drop doc comments, plain comments stay; drop attributes; drop pub / pub(crate)."""
    out = []
    fired = set()
    j, n = 0, len(toks)
    while j < n:
        t = toks[j]
        if t.kind == "lcomment" and (t.text.startswith("///") or t.text.startswith("//!")):
            fired.add("R0:doc")
            # also drop the preceding indentation and the newline after
            while out and out[-1].kind == "ws" and "\n" not in out[-1].text:
                out.pop()
            j += 1
            if j < n and toks[j].kind == "ws" and toks[j].text.startswith("\n"):
                rest = toks[j].text[1:]
                if rest:
                    out.append(rl.Tok("ws", rest, 0, 0))
                j += 1
            continue
        if t.kind == "punct" and t.text == "#":
            k = j + 1
            if k < n and toks[k].text == "[":
                e = rl.match_close(toks, k)
                attr = rl.code_text(toks[j:e + 1])
                if attr.startswith("#[derive") and re.search(r"\bCopy\b", attr):
                    # plain-data type: keep Copy/Clone (needed by the borrow checker), drop the other derives
                    fired.add("R0:derive->Clone,Copy")
                    out.append(rl.Tok("attr", "#[derive(Clone, Copy)]", t.start, t.end))
                    j = e + 1
                    continue
                if not attr.startswith("#[verifier"):
                    fired.add("R0:attr")
                    j = e + 1
                    if j < n and toks[j].kind == "ws":
                        # keep indentation of the following line only
                        w = toks[j].text
                        if "\n" in w:
                            out.append(rl.Tok("ws", w[w.rindex("\n") + 1:], 0, 0))
                        j += 1
                    continue
        if t.kind == "ident" and t.text == "pub":
            k = j + 1
            if k < n and toks[k].text == "(":
                k = rl.match_close(toks, k) + 1
            if k < n and toks[k].kind == "ws":
                k += 1
            fired.add("R0:pub")
            j = k
            continue
        out.append(t)
        j += 1
    return out, fired


def _bytestr_bytes(lit):
    body = lit[2:-1]
    out = []
    i = 0
    while i < len(body):
        c = body[i]
        if c == "\\":
            n = body[i + 1]
            if n == "x":
                out.append(int(body[i + 2:i + 4], 16))
                i += 4
                continue
            m = {"n": 10, "r": 13, "t": 9, "\\": 92, "0": 0, '"': 34, "'": 39}
            if n in m:
                out.append(m[n])
                i += 2
                continue
            if n == "\n":   # line continuation
                i += 2
                while i < len(body) and body[i] in " \t\n":
                    i += 1
                continue
            raise GenError("unsupported escape in byte string %r" % lit)
        out.extend(c.encode("utf-8"))
        i += 1
    return out


def rewrite_r4(toks):
    """R4: byte-string literal b"..." -> &[0x.., ..] array literal with the same bytes."""
    fired = False
    out = []
    for idx, t in enumerate(toks):
        if t.kind == "str" and t.text.startswith('b"'):
            bs = _bytestr_bytes(t.text)
            lit = "&[" + ", ".join("0x%02xu8" % b for b in bs) + "]"
            k = idx + 1
            while k < len(toks) and toks[k].kind == "ws":
                k += 1
            if k < len(toks) and toks[k].text == ".":
                lit = "(" + lit + ")"     # method call on the literal: keep `&` bound to the array
            out.append(rl.Tok("str4", lit, t.start, t.end))
            fired = True
        else:
            out.append(t)
    return out, fired


def rewrite_or_guard(toks):
    """R14: a match arm `P1 | P2 if G => B` (or-pattern with guard, rejected by Verus) becomes `P1 if G => B, P2 if G => B`."""
    fired = False
    i = 0
    out = list(toks)
    while i < len(out):
        t = out[i]
        if t.kind == "punct" and t.text == "=" and i + 1 < len(out) and out[i + 1].text == ">":
            arrow = i
            # arm start: scan back to `,` `{` `}` at depth 0
            j = arrow - 1
            depth = 0
            while j >= 0:
                u = out[j]
                if u.kind == "punct" and u.text in ")]}":
                    if u.text == "}" and depth == 0:
                        break
                    depth += 1
                elif u.kind == "punct" and u.text in "([{":
                    if depth == 0:
                        break
                    depth -= 1
                elif u.kind == "punct" and u.text == "," and depth == 0:
                    break
                j -= 1
            start = j + 1
            head = out[start:arrow]
            # find `if` at depth 0 and `|` before it
            depth = 0
            if_idx = None
            bars = []
            for k, u in enumerate(head):
                if u.kind == "punct" and u.text in "([{":
                    depth += 1
                elif u.kind == "punct" and u.text in ")]}":
                    depth -= 1
                elif depth == 0 and u.kind == "ident" and u.text == "if" and if_idx is None:
                    if_idx = k
                elif depth == 0 and u.kind == "punct" and u.text == "|" and if_idx is None:
                    bars.append(k)
            if if_idx is not None and bars:
                # body extent
                b = arrow + 2
                while b < len(out) and out[b].kind in ("ws", "lcomment", "bcomment"):
                    b += 1
                if out[b].kind == "punct" and out[b].text == "{":
                    e = rl.match_close(out, b)
                    body = out[arrow + 2:e + 1]
                    end = e + 1
                    k2 = end
                    while k2 < len(out) and out[k2].kind == "ws":
                        k2 += 1
                    if k2 < len(out) and out[k2].text == ",":
                        end = k2 + 1
                else:
                    e = b
                    depth = 0
                    while e < len(out):
                        u = out[e]
                        if u.kind == "punct" and u.text in "([{":
                            depth += 1
                        elif u.kind == "punct" and u.text in ")]}":
                            if depth == 0:
                                break
                            depth -= 1
                        elif u.kind == "punct" and u.text == "," and depth == 0:
                            break
                        e += 1
                    body = out[arrow + 2:e]
                    end = e + 1 if (e < len(out) and out[e].text == ",") else e
                lead = []
                hs = 0
                while hs < len(head) and head[hs].kind in ("ws", "lcomment", "bcomment"):
                    lead.append(head[hs])
                    hs += 1
                pats = []
                prev = hs
                for bidx in bars:
                    pats.append(head[prev:bidx])
                    prev = bidx + 1
                pats.append(head[prev:if_idx])
                guard = head[if_idx:]
                new = list(lead)
                for pi, pt in enumerate(pats):
                    ptxt = "".join(x.text for x in pt).strip()
                    gtxt = "".join(x.text for x in guard).strip()
                    new += [rl.Tok("syn", ptxt + " " + gtxt + " =>", -1, -1)] + [rl.Tok(x.kind, x.text, (x.start if pi == 0 else -1), x.end) for x in body]
                    new.append(rl.Tok("syn", ",\n" if pi + 1 < len(pats) else ",", -1, -1))
                out = out[:start] + new + out[end:]
                fired = True
                i = start + len(new)
                continue
        i += 1
    return out, fired


def split_signature(toks, body_idx):
    """toks[:body_idx] is the header of a fn item (already R0-stripped).  Return dict of text parts."""
    # find `fn`
    j = 0
    while j < body_idx and not (toks[j].kind == "ident" and toks[j].text == "fn"):
        j += 1
    if j >= body_idx:
        raise GenError("not a fn item")
    prefix = "".join(t.text for t in toks[:j])  # e.g. `unsafe `, `const `
    j += 1
    while toks[j].kind == "ws":
        j += 1
    name = toks[j].text
    j += 1
    generics = ""
    if toks[j].text == "<":
        depth, k = 0, j
        while True:
            t = toks[k]
            if t.text == "<":
                depth += 1
            elif t.text == ">" and toks[k - 1].text != "-":
                depth -= 1
                if depth == 0:
                    break
            k += 1
        generics = "".join(t.text for t in toks[j:k + 1])
        j = k + 1
    while toks[j].kind == "ws":
        j += 1
    if toks[j].text != "(":
        raise GenError("fn %s: expected parameter list" % name)
    pe = rl.match_close(toks, j)
    params = "".join(t.text for t in toks[j + 1:pe])
    j = pe + 1
    rest = toks[j:body_idx]
    ret, where = "", ""
    # locate `where` at depth 0
    depth = 0
    widx = None
    for k, t in enumerate(rest):
        if t.kind == "punct" and t.text in "([{<":
            if not (t.text == "<"):
                depth += 1
        elif t.kind == "punct" and t.text in ")]}":
            depth -= 1
        elif t.kind == "ident" and t.text == "where" and depth == 0:
            widx = k
            break
    if widx is not None:
        where = "".join(t.text for t in rest[widx:]).strip()
        rest = rest[:widx]
    rtxt = "".join(t.text for t in rest).strip()
    if rtxt.startswith("->"):
        ret = rtxt[2:].strip()
    elif rtxt:
        raise GenError("fn %s: unparsed signature tail %r" % (name, rtxt))
    return dict(prefix=prefix, name=name, generics=generics, params=params, ret=ret, where=where)


LOOP_KW = ("loop", "while", "for")


def find_loops(toks):
    """Indices (kw_idx, brace_idx) of every loop in the token list, in source order."""
    res = []
    n = len(toks)
    for j, t in enumerate(toks):
        if t.kind == "ident" and t.text in LOOP_KW:
            # `for` in `for<'a>` HRTB or `impl X for Y` is not a loop
            if t.text == "for":
                k = j + 1
                while k < n and toks[k].kind == "ws":
                    k += 1
                if k < n and toks[k].text == "<":
                    continue
                # previous significant token being an ident/`>` (impl Trait for Type) – not in fn bodies
            k = j + 1
            ok = None
            while k < n:
                tk = toks[k]
                if tk.kind == "punct" and tk.text in ("(", "["):
                    k = rl.match_close(toks, k) + 1
                    continue
                if tk.kind == "punct" and tk.text == "{":
                    ok = k
                    break
                if tk.kind == "punct" and tk.text in (";", "}"):
                    break
                k += 1
            if ok is not None:
                res.append((j, ok))
    return res


def desugar_for(toks, k, itname, where):
    """R5: rewrite the k-th loop (which must be a `for`) into the Rust reference desugaring
         { let mut IT = EXPR; loop { match IT.next() { Some(PAT) => BODY None => break, } } }
    `EXPR.enumerate()` with a tuple pattern `(i, x)` becomes an explicit usize counter."""
    loops = find_loops(toks)
    if k < 1 or k > len(loops):
        raise GenError("lost anchor: desugar-for %d in %s" % (k, where))
    kw, br = loops[k - 1]
    if toks[kw].text != "for":
        raise GenError("desugar-for %d in %s: loop is `%s`" % (k, where, toks[kw].text))
    end = rl.match_close(toks, br)
    # find `in` at depth 0 between kw and br
    j = kw + 1
    in_idx = None
    while j < br:
        t = toks[j]
        if t.kind == "punct" and t.text in ("(", "["):
            j = rl.match_close(toks, j) + 1
            continue
        if t.kind == "ident" and t.text == "in":
            in_idx = j
            break
        j += 1
    if in_idx is None:
        raise GenError("desugar-for: no `in` in %s" % where)
    pat = "".join(t.text for t in toks[kw + 1:in_idx]).strip()
    expr = "".join(t.text for t in toks[in_idx + 1:br]).strip()
    pre = ""
    note = "R5:for-desugar"
    m = re.match(r"^\(\s*(\w+)\s*,\s*(.+)\)$", pat, re.S)
    inner_pre = ""
    inner_post = ""
    if expr.endswith(".enumerate()") and m:
        expr = expr[: -len(".enumerate()")]
        ctr = itname + "_i"
        pre = "let mut %s: usize = 0; " % ctr
        pat = m.group(2).strip()
        inner_pre = "{ let %s = %s; %s = vx_enum_next(%s); " % (m.group(1), ctr, ctr, ctr)
        inner_post = " }"
        note = "R5:for-desugar+enumerate-counter"

    mref = re.match(r"^&\s*(\w+)$", pat)
    if mref:
        # `&x` reference pattern (rejected by Verus in this position): bind the reference and copy out of it
        pat = itname + "_ref"
        inner_pre = "{ let %s = *%s; " % (mref.group(1), pat) + (inner_pre[2:] if inner_pre else "")
        inner_post = " }"
        note += "+deref-pattern"

    def syn(text):
        return [rl.Tok(t.kind, t.text, -1, -1) for t in rl.lex(text)]

    head = (syn("{ %slet mut %s = %s; " % (pre, itname, expr)) + [rl.Tok("marker", "FORINIT %d" % k, -1, -1)]
            + syn("loop {\nmatch %s.next() { Some(%s) => %s" % (itname, pat, inner_pre)))
    tailt = syn("%s None => break, } } }" % inner_post)
    body = ([toks[br], rl.Tok("marker", "FORSTART %d" % k, -1, -1)] + toks[br + 1:end]
            + [rl.Tok("marker", "FOREND %d" % k, -1, -1), toks[end]])
    ntoks = toks[:kw] + head + body + tailt + toks[end + 1:]
    return ntoks, note


# ---------------------------------------------------------------------------------------------
# template processing


class Block:
    def __init__(self, kind, header, tline):
        self.kind = kind
        self.header = header
        self.tline = tline
        self.contract = []   # [(tline, text)]
        self.loops = {}      # k -> [(tline, text)]
        self.inserts = []    # (where, anchor, nth, text, tline)
        self.edits = []      # (mode, old, new, nth, tline)
        self.desugar = []    # (loop index, iterator name, tline)
        self.lpos = {}       # (k, where) -> [(tline, text)]  where in pre/start/end/post
        self.fnstart = []    # [(tline, text)]


_opt_re = re.compile(r"\{([a-z_]+)(?:=([^}]*))?\}")
_q = r'"((?:[^"\\]|\\.)*)"'


def _unq(s):
    out, i = [], 0
    while i < len(s):
        if s[i] == "\\" and i + 1 < len(s):
            c = s[i + 1]
            out.append({"n": "\n", "t": "\t", '"': '"', "\\": "\\"}.get(c, "\\" + c))
            i += 2
        else:
            out.append(s[i])
            i += 1
    return "".join(out)


def expand_bytes_macro(text):
    """template convenience: @b"abc" -> seq![0x61u8, 0x62u8, 0x63u8] (spec-level byte strings)"""
    def rep(m):
        bs = _bytestr_bytes('b"' + m.group(1) + '"')
        if not bs:
            return "Seq::<u8>::empty()"
        return "seq![" + ", ".join("0x%02xu8" % b for b in bs) + "]"
    return re.sub(r'@b"((?:[^"\\]|\\.)*)"', rep, text)


def expand_includes(text, base, depth=0):
    out = []
    for line in text.split("\n"):
        m = re.match(r"^\s*//@include\s+(\S+)\s*$", line)
        if m:
            if depth > 5:
                raise GenError("include depth")
            inc = open(os.path.join(base, m.group(1)), encoding="utf-8").read()
            out.append("// >>> include %s" % m.group(1))
            out.append(expand_includes(inc, base, depth + 1).rstrip("\n"))
            out.append("// <<< include %s" % m.group(1))
        else:
            out.append(line)
    return "\n".join(out)


def parse_template(text):
    """Split a template into a list of ('text', lineno, line) / ('block', Block) / ('props', ..)."""
    out = []
    cur = None
    gsubs = []
    for ln, line in enumerate(text.split("\n"), 1):
        s = line.strip()
        if not s.startswith("//@"):
            if cur is not None:
                if s == "" or s.startswith("//"):
                    continue
                raise GenError("template line %d: text inside a directive block" % ln)
            out.append(("text", ln, line))
            continue
        d = s[3:]
        if cur is None:
            m = re.match(r"^(fn|type|item)\s+(.*)$", d)
            if m:
                cur = Block(m.group(1), m.group(2), ln)
                continue
            m = re.match(r"^props\s+(.*)$", d)
            if m:
                out.append(("props", ln, m.group(1).split()))
                continue
            m = re.match(r"^global-(replace|resub)\s+%s\s*=>\s*%s\s*$" % (_q, _q), d)
            if m:
                gsubs.append((m.group(1), _unq(m.group(2)), _unq(m.group(3)), ln))
                continue
            raise GenError("template line %d: unknown directive %r" % (ln, d))
        if d.strip() == "end":
            out.append(("block", cur.tline, cur))
            cur = None
            continue
        m = re.match(r"^\|\s?(.*)$", d)
        if m:
            cur.contract.append((ln, m.group(1)))
            continue
        m = re.match(r"^loop\s+(\d+)\s*\|\s?(.*)$", d)
        if m:
            cur.loops.setdefault(int(m.group(1)), []).append((ln, m.group(2)))
            continue
        m = re.match(r"^loop-(pre|start|end|post|init)\s+(\d+)\s*\|\s?(.*)$", d)
        if m:
            cur.lpos.setdefault((int(m.group(2)), m.group(1)), []).append((ln, m.group(3)))
            continue
        m = re.match(r"^fn-start\s*\|\s?(.*)$", d)
        if m:
            cur.fnstart.append((ln, m.group(1)))
            continue
        m = re.match(r"^desugar-for\s+(\d+)\s+(\w+)\s*$", d)
        if m:
            cur.desugar.append((int(m.group(1)), m.group(2), ln))
            continue
        m = re.match(r"^(before|after)\s+%s\s*(?:#(\d+))?\s*\|\s?(.*)$" % _q, d)
        if m:
            cur.inserts.append((m.group(1), _unq(m.group(2)), int(m.group(3) or 1), m.group(4), ln))
            continue
        m = re.match(r"^(replace|resub)(\??)\s+%s\s*=>\s*%s\s*(?:#(\d+|all))?\s*$" % (_q, _q), d)
        if m:
            # `replace?` / `resub?`: a rewrite that only removes a construct Verus cannot read (a closure, a combinator chain); when the
            # code no longer contains it (already written in the explicit form) the item is extracted as it stands
            cur.edits.append((m.group(1) + ("?" if m.group(2) else ""), _unq(m.group(3)), _unq(m.group(4)), m.group(5) or "1", ln))
            continue
        m = re.match(r"^expand-macro\s+(\S+)\s*::\s*(\w+)\s*$", d)
        if m:
            cur.edits.append(("macro", m.group(1), m.group(2), "all", ln))
            continue
        raise GenError("template line %d: bad directive line %r" % (ln, d))
    if cur is not None:
        raise GenError("template: unterminated block starting at line %d" % cur.tline)
    return out, gsubs


class Generated:
    def __init__(self):
        self.lines = []      # generated text lines
        self.map = []        # per line: dict(kind, fn, ord, tline, src, srcline, props)
        self.items = []      # extraction records
        self.fns = {}        # fn id -> dict(props, first_line, last_line, clauses, external_body)
        self.trusted = []    # trusted-base entries found by the scan

    def emit(self, text, **info):
        for l in text.split("\n"):
            self.lines.append(l)
            self.map.append(dict(info))

    def text(self):
        return "\n".join(self.lines) + "\n"


_FRAG_RX = {"ident": r"([A-Za-z_]\w*)", "literal": r"(\d\w*)", "expr": r"(.+?)", "ty": r"([\w:<>]+)", "tt": r"(\S+)"}


def macro_arms(src_text, name, where):
    """Arms of `macro_rules! name { (pattern) => { body }; ... }` read from the repository source: [(regex, [var names], body)]."""
    m = re.search(r"macro_rules!\s*%s\s*\{" % re.escape(name), src_text)
    if not m:
        raise GenError("lost anchor: macro_rules! %s not found (%s)" % (name, where))
    i = m.end()
    depth = 1
    j = i
    while j < len(src_text) and depth:
        depth += {"{": 1, "}": -1}.get(src_text[j], 0)
        j += 1
    body = src_text[i:j - 1]
    arms = []
    for am in re.finditer(r"\(\s*(.*?)\s*\)\s*=>\s*\{\s*(.*?)\s*\}\s*;?", body, re.S):
        pat, out = am.group(1), am.group(2)
        rx = ""
        names = []
        pos = 0
        for fm in re.finditer(r"\$(\w+):(\w+)", pat):
            lit = pat[pos:fm.start()]
            rx += r"\s*".join(re.escape(t) for t in lit.split()) if lit.strip() else ""
            rx = rx + r"\s*"
            if fm.group(2) not in _FRAG_RX:
                raise GenError("macro %s: fragment kind %s outside the expander's subset (%s)" % (name, fm.group(2), where))
            rx += _FRAG_RX[fm.group(2)] + r"\s*"
            names.append(fm.group(1))
            pos = fm.end()
        lit = pat[pos:]
        rx += r"\s*".join(re.escape(t) for t in lit.split()) if lit.strip() else ""
        arms.append((re.compile(r"^\s*" + rx + r"\s*$", re.S), names, out))
    if not arms:
        raise GenError("macro %s: no arms parsed (%s)" % (name, where))
    return arms


def expand_macro(text, src_text, name, record, where):
    """Rule R-macro: every invocation `name!(args)` in an extracted function is replaced by the body of the first matching arm of the
    macro_rules! definition as it stands in the repository, with the metavariables substituted textually and the result parenthesised."""
    arms = macro_arms(src_text, name, where)
    out = ""
    pos = 0
    cnt = 0
    for m in re.finditer(r"\b%s!\s*\(" % re.escape(name), text):
        if m.start() < pos:
            continue
        i = m.end()
        depth = 1
        j = i
        while j < len(text) and depth:
            depth += {"(": 1, ")": -1}.get(text[j], 0)
            j += 1
        args = text[i:j - 1]
        rep = None
        for (rx, names, body) in arms:
            mm = rx.match(args)
            if mm:
                rep = body
                for k, nme in enumerate(names):
                    rep = re.sub(r"\$%s\b" % re.escape(nme), lambda _m, v=mm.group(k + 1).strip(): v, rep)
                break
        if rep is None:
            raise GenError("macro %s!(%s): no arm matches (%s)" % (name, args, where))
        out += text[pos:m.start()] + "(" + rep + ")"
        pos = j
        cnt += 1
    if cnt == 0:
        record.append("macro %s!: no invocation in this item (nothing to expand)" % name)
        return text
    record.append("macro %s! expanded from its definition in the repository (x%d)" % (name, cnt))
    return out + text[pos:]


_REPO_ROOT = [None]


def _apply_edits(text, edits, record, where):
    for (mode, old, new, nth, tline) in edits:
        if mode == "macro":
            text = expand_macro(text, Source.get(_REPO_ROOT[0], old).text, new, record, where)
            continue
        optional = mode.endswith("?")
        mode = mode.rstrip("?")
        if optional and ((mode == "replace" and old not in text) or (mode == "resub" and not re.search(old, text, re.S))):
            record.append("optional %s %r: construct absent, item extracted as it stands" % (mode, old))
            continue
        if mode == "replace":
            cnt = text.count(old)
            if cnt == 0:
                raise GenError("lost anchor (replace %r) in %s [template line %d]" % (old, where, tline))
            if nth == "all":
                text = text.replace(old, new)
            else:
                k = int(nth)
                if cnt < k:
                    raise GenError("lost anchor (replace %r #%d) in %s" % (old, k, where))
                if nth == "1" and cnt != 1:
                    raise GenError("ambiguous replace %r (%d matches) in %s [template line %d]" % (old, cnt, where, tline))
                pos = -1
                for _ in range(k):
                    pos = text.find(old, pos + 1)
                text = text[:pos] + new + text[pos + len(old):]
            record.append("replace %r => %r (%s)" % (old, new, nth))
        else:
            rx = re.compile(old, re.S)
            text, cnt = rx.subn(new, text)
            if cnt == 0:
                raise GenError("lost anchor (resub %r) in %s [template line %d]" % (old, where, tline))
            record.append("resub %r => %r (x%d)" % (old, new, cnt))
    return text


def _apply_global(text, gsubs, record):
    for (mode, old, new, tline) in gsubs:
        if mode == "replace":
            if old in text:
                text = text.replace(old, new)
                record.append("global replace %r => %r" % (old, new))
        else:
            text2, cnt = re.subn(old, new, text, flags=re.S)
            if cnt:
                text = text2
                record.append("global resub %r => %r (x%d)" % (old, new, cnt))
    return text


def _parse_header(h):
    opts = {}
    for m in _opt_re.finditer(h):
        opts[m.group(1)] = m.group(2) if m.group(2) is not None else True
    h = _opt_re.sub("", h).strip()
    parts = [p.strip() for p in h.split(" :: ")]
    return parts[0], parts[1:], opts


def _check_assumed_derives(template_text, repo_root):
    """`//@assume-derive <file> :: <Name> :: Trait ...` - the unit's specifications treat these traits of the type as the DERIVED ones (structural
    equality, field-wise clone ...); derives leave no source text to extract, so the assumption is checked mechanically instead: the type's
    declaration in the repository must still carry `#[derive(.. Trait ..)]`.  If it does not (a hand-written impl took its place) the unit is
    undecided: GenError, exit 2."""
    out = []
    for line in template_text.split("\n"):
        mt = re.match(r"\s*//@assume-text\s+(\S+)\s*::\s*(.+)$", line)
        if mt:
            # the template instantiates a macro of the repository with arguments written in the TEMPLATE ({subst=...}); the invocation in the
            # repository that decides those arguments must still read as assumed (compared modulo white space), else the unit is undecided
            rel, want = mt.group(1), mt.group(2).strip()
            try:
                src = open(os.path.join(repo_root, rel)).read()
            except OSError:
                raise GenError("assume-text: cannot read %s" % rel)
            norm = lambda t: re.sub(r"\s+", " ", t).strip()
            if norm(want) not in norm(src):
                raise GenError("assumption lost: %s no longer contains `%s` (macro instances in the template were written for that invocation)" % (rel, norm(want)))
            out.append("// assumed invocation (checked against the repository's text): %s :: %s" % (rel, norm(want)))
            continue
        m = re.match(r"\s*//@assume-derive\s+(\S+)\s*::\s*(\w+)\s*::\s*(.+)$", line)
        if not m:
            out.append(line)
            continue
        rel, name, traits = m.group(1), m.group(2), m.group(3).split()
        try:
            src = open(os.path.join(repo_root, rel)).read()
        except OSError:
            raise GenError("assume-derive: cannot read %s" % rel)
        dm = re.search(r"((?:[ \t]*(?:#\[[^\n]*\]|///[^\n]*|//[^\n]*)[ \t]*\n)*)[ \t]*(?:pub(?:\([^)]*\))?\s+)?(?:struct|enum)\s+%s\b" % re.escape(name), src)
        if not dm:
            raise GenError("assume-derive: type %s not found in %s" % (name, rel))
        derived = set()
        for d in re.findall(r"#\[derive\(([^)]*)\)\]", dm.group(1)):
            derived.update(x.strip().split("::")[-1] for x in d.split(","))
        for t in traits:
            if t not in derived:
                raise GenError("assumption lost: %s :: %s no longer derives %s (the unit's specifications assume the derived implementation)" % (rel, name, t))
        out.append("// assumed derived (checked against the repository's declaration): %s :: %s :: %s" % (rel, name, " ".join(traits)))
    return "\n".join(out)


def generate(unit, template_text, repo_root, units_dir=None):
    if units_dir:
        template_text = expand_includes(template_text, units_dir)
    template_text = expand_bytes_macro(template_text)
    template_text = _check_assumed_derives(template_text, repo_root)
    parsed, gsubs = parse_template(template_text)
    g = Generated()
    _REPO_ROOT[0] = repo_root
    cur_props = []
    used_consts = {}
    for ent in parsed:
        if ent[0] == "text":
            _, ln, line = ent
            mtag = re.search(r"//\s*\[([A-Z0-9,]+)\]\s*$", line)
            if mtag:
                g.emit(line, kind="spec", tline=ln, props=[x for x in mtag.group(1).split(",") if x], linetag=True)
            else:
                g.emit(line, kind="spec", tline=ln, props=list(cur_props))
            continue
        if ent[0] == "props":
            cur_props = ent[2]
            continue
        blk = ent[2]
        rel, scopes, opts = _parse_header(blk.header)
        src = Source.get(repo_root, rel)
        lo, hi, body = locate(src, scopes, has=opts.get("has"), first=bool(opts.get("first")))
        toks = src.toks[lo:hi]
        # trim leading whitespace tokens
        while toks and toks[0].kind == "ws":
            toks = toks[1:]
            lo += 1
        orig = "".join(t.text for t in toks)
        start_line = src.line_of(src.toks[lo].start)
        end_line = src.line_of(src.toks[hi - 1].end - 1)
        rules = []
        stoks, fired = strip_r0(toks)
        rules += sorted(fired)
        stoks, f4 = rewrite_r4(stoks)
        if f4:
            rules.append("R4:bytestr->array")
        if blk.kind == "fn":
            stoks, f14 = rewrite_or_guard(stoks)
            if f14:
                rules.append("R14:or-pattern+guard arm duplicated per pattern")
        stext = "".join(t.text for t in stoks)
        if opts.get("subst"):
            for pair in opts["subst"].split(","):
                a, b = pair.split(":")
                stext = stext.replace(a, b)
                rules.append("macro-subst %s:=%s" % (a, b))
        stext = _apply_global(stext, gsubs, rules)
        where = "%s :: %s" % (rel, " :: ".join(scopes))
        props = opts.get("props", "")
        props = [p for p in props.split(",") if p] if isinstance(props, str) else []
        rec = dict(kind=blk.kind, file=rel, path=" :: ".join(scopes), lines=[start_line, end_line],
                   sha256=hashlib.sha256(orig.encode()).hexdigest(), rules=rules, props=props,
                   tline=blk.tline)
        g.items.append(rec)
        if blk.kind in ("type", "item"):
            if blk.kind == "type" and not opts.get("private"):
                # visibility normalisation (R0): everything in the generated file is `pub`
                stext = re.sub(r"^(\s*)(struct|enum|union)\b", r"\1pub \2", stext, count=1, flags=re.M)
                if re.search(r"(?m)^\s*pub struct\b[^;{(]*\{", stext):
                    b_ = stext.index("{")
                    stext = stext[:b_] + re.sub(r"(?m)^(\s+)([A-Za-z_][A-Za-z0-9_]*\s*:)", r"\1pub \2", stext[b_:])
                elif re.search(r"(?m)^\s*pub struct\b[^;{(]*\(", stext):
                    # tuple struct: make the fields pub
                    m_ = re.match(r"^(.*?pub struct\b[^(]*\()(.*)(\)\s*;\s*)$", stext, re.S)
                    if m_:
                        fields = ", ".join("pub " + f.strip() for f in m_.group(2).split(",") if f.strip())
                        stext = m_.group(1) + fields + m_.group(3)
                rules.append("R0:pub-normalise")
            if blk.kind == "item" and not opts.get("private"):
                stext = re.sub(r"(?m)^([ \t]*)(const|static|type)\b", r"\1pub \2", stext, count=1)
            stext = _apply_edits(stext, blk.edits, rules, where)
            g.emit(stext, kind="item", tline=blk.tline, src=rel, srcline=start_line, props=props)
            continue
        # ---- fn ----
        stext = _apply_edits(stext, blk.edits, rules, where)
        ftoks = rl.lex(stext)
        # body brace = first `{` at depth 0 after the signature
        bidx = None
        j = 0
        while j < len(ftoks):
            t = ftoks[j]
            if t.kind == "punct" and t.text in ("(", "["):
                j = rl.match_close(ftoks, j) + 1
                continue
            if t.kind == "punct" and t.text == "{":
                bidx = j
                break
            j += 1
        if bidx is None:
            raise GenError("fn without body: %s" % where)
        bend = rl.match_close(ftoks, bidx)
        sig = split_signature(ftoks, bidx)
        name = opts.get("name", sig["name"])
        fid = "%s/%s" % (unit, opts.get("id", (scopes[-2] + "::" if len(scopes) > 1 else "") + sig["name"]))
        fid = re.sub(r"\s+", " ", fid)
        if fid in g.fns:
            raise GenError("duplicate fn id %s (use {id=...})" % fid)
        retname = opts.get("ret", "r")
        params = sig["params"]
        body_toks = ftoks[bidx:bend + 1]
        pre_body = ""
        if re.match(r"^\s*mut\s+self\b", params):
            params = re.sub(r"^\s*mut\s+self\b", "self", params)
            body_toks = [rl.Tok(t.kind, "this", 0, 0) if (t.kind == "ident" and t.text == "self") else t
                         for t in body_toks]
            pre_body = " let mut this = self;"
            rules.append("R1:mut-self")
        # R1b: `mut x: T` parameters -> immutable parameter + `let mut x = x;` (so that contracts name the argument value)
        mparams = re.findall(r"(?:^|,)\s*mut\s+([A-Za-z_][A-Za-z0-9_]*)\s*:", params)
        if mparams:
            params = re.sub(r"(^|,)(\s*)mut\s+([A-Za-z_][A-Za-z0-9_]*)(\s*:)", r"\1\2\3_in\4", params)
            pre_body += "".join(" let mut %s = %s_in;" % (x, x) for x in mparams)
            rules.append("R1b:mut-param(%s)" % ",".join(mparams))
        for (k, itname, tl) in sorted(blk.desugar, reverse=True):
            body_toks, note = desugar_for(body_toks, k, itname, where)
            rules.append("%s (loop %d, iterator `%s`)" % (note, k, itname))
        # structural markers for loops: invariants, pre/start/end/post inserts
        want = set(blk.loops.keys()) | set(k for (k, w) in blk.lpos.keys())
        if want:
            loops = find_loops(body_toks)
            before = {}   # token index -> [marker text] inserted before the token
            after = {}
            for k in sorted(want):
                if k < 1 or k > len(loops):
                    raise GenError("lost anchor: loop %d of %s (has %d loops)" % (k, where, len(loops)))
                kw, br = loops[k - 1]
                close = rl.match_close(body_toks, br)
                fs = [i for i, t in enumerate(body_toks) if t.kind == "marker" and t.text == "FORSTART %d" % k]
                fe = [i for i, t in enumerate(body_toks) if t.kind == "marker" and t.text == "FOREND %d" % k]
                if k in blk.loops:
                    before.setdefault(br, []).append("INV %d" % k)
                if (k, "pre") in blk.lpos:
                    # a desugared `for` starts at the synthesized `{` four tokens before `loop`; find statement start
                    j = kw
                    while j > 0 and body_toks[j - 1].start == -1 and (body_toks[j - 1].kind != "marker" or body_toks[j - 1].text.startswith("FORINIT")):
                        j -= 1
                    before.setdefault(j, []).append("PRE %d" % k)
                if (k, "start") in blk.lpos:
                    after.setdefault(fs[0] if fs else br, []).append("START %d" % k)
                if (k, "end") in blk.lpos:
                    before.setdefault(fe[0] if fe else close, []).append("END %d" % k)
                if (k, "post") in blk.lpos:
                    j = close
                    while j + 1 < len(body_toks) and body_toks[j + 1].start == -1 and body_toks[j + 1].kind != "marker":
                        j += 1
                    after.setdefault(j, []).append("POST %d" % k)
            nt = []
            for idx, t in enumerate(body_toks):
                for mk in before.get(idx, []):
                    nt.append(rl.Tok("marker", mk, -1, -1))
                nt.append(t)
                for mk in after.get(idx, []):
                    nt.append(rl.Tok("marker", mk, -1, -1))
            body_toks = nt
        if blk.fnstart:
            body_toks = [body_toks[0], rl.Tok("marker", "FNSTART", -1, -1)] + body_toks[1:]
        # header
        ret = sig["ret"]
        sig_line = "%sfn %s%s(%s)" % (sig["prefix"], name, sig["generics"], params)
        if ret:
            sig_line += " -> (%s: %s)" % (retname, ret)
        fn_first = len(g.lines) + 1
        clauses = []
        if opts.get("external_body"):
            g.emit("#[verifier::external_body]", kind="sig", fn=fid, tline=blk.tline, props=props)
        if opts.get("spinoff"):
            g.emit("#[verifier::spinoff_prover]", kind="sig", fn=fid, tline=blk.tline, props=props)
        if opts.get("noisolation"):
            g.emit("#[verifier::loop_isolation(false)]", kind="sig", fn=fid, tline=blk.tline, props=props)
        if opts.get("rlimit"):
            g.emit("#[verifier::rlimit(%s)]" % opts["rlimit"], kind="sig", fn=fid, tline=blk.tline, props=props)
        g.emit(sig_line, kind="sig", fn=fid, tline=blk.tline, src=rel, srcline=start_line, props=props)
        if sig["where"]:
            g.emit("    " + sig["where"], kind="sig", fn=fid, tline=blk.tline, props=props)
        ckind = None
        counts = {}
        for (tl, text) in blk.contract:
            cprops = props
            mt = re.match(r"^(\s*(?:(?:requires|ensures)\s+)?)\[([A-Z0-9,]+)\]\s*(.*)$", text)
            if mt:
                cprops = [x for x in mt.group(2).split(",") if x]
                text = mt.group(1) + mt.group(3)
            m = re.match(r"^\s*(requires|ensures|decreases|recommends|opens_invariants|no_unwind)\b", text)
            if m:
                ckind = m.group(1)
            is_clause = bool(re.sub(r"^\s*(requires|ensures|decreases|recommends)\s*", "", text).strip()) and ckind
            cid = None
            if is_clause and not text.strip().startswith("//"):
                counts[ckind] = counts.get(ckind, 0) + 1
                cid = "%s#%d" % (ckind, counts[ckind])
                clauses.append(dict(id=cid, text=text.strip(), tline=tl, props=cprops))
            g.emit("    " + text, kind=ckind or "contract", fn=fid, ord=cid, tline=tl, props=cprops)
        # body lines: walk the tokens; markers become directive lines; every line keeps the source
        # line of its first original token (line numbers are exact when rewrites keep the line count)
        total_nl = stext.count("\n")

        def src_line_of(tok):
            if tok.start is None or tok.start < 0:
                return None
            return end_line - (total_nl - stext.count("\n", 0, tok.start))

        out_lines = []   # (text, info)
        cur_txt = []
        cur_src = [None]

        def flush(force=False):
            txt = "".join(cur_txt)
            if txt.strip() or force:
                out_lines.append((txt.rstrip(), dict(kind="body", fn=fid, src=rel, srcline=cur_src[0], props=props)))
            del cur_txt[:]
            cur_src[0] = None

        def emit_texts(lst, kind, k=None, lk0=None):
            c = 0
            lk = lk0
            for (tl, text) in lst:
                cprops = props
                mt = re.match(r"^(\s*)\[([A-Z0-9,]+)\]\s*(.*)$", text)
                if mt:
                    cprops = [x for x in mt.group(2).split(",") if x]
                    text = mt.group(1) + mt.group(3)
                if kind == "loopinv":
                    mm = re.match(r"^\s*(invariant_except_break|invariant|ensures|decreases)\b", text)
                    if mm:
                        lk = mm.group(1)
                    if not re.sub(r"^\s*(invariant_except_break|invariant|ensures|decreases)\s*", "", text).strip():
                        out_lines.append(("        " + text, dict(kind="loopinv", fn=fid, tline=tl, props=props)))
                        continue
                    c += 1
                    cid = "loop%d/%s#%d" % (k, lk, c)
                    clauses.append(dict(id=cid, text=text.strip(), tline=tl, props=cprops))
                    out_lines.append(("        " + text, dict(kind="loopinv", fn=fid, ord=cid, tline=tl, props=cprops)))
                else:
                    out_lines.append((text, dict(kind="hint", fn=fid, tline=tl, props=props)))

        if pre_body:
            body_toks = [body_toks[0], rl.Tok("ws", pre_body, -1, -1)] + body_toks[1:]
        for t in body_toks:
            if t.kind == "marker":
                mm = re.match(r"^(INV|PRE|START|END|POST|FORSTART|FOREND|FORINIT|FNSTART)(?: (\d+))?$", t.text)
                kind_, k = mm.group(1), int(mm.group(2) or 0)
                if kind_ in ("FORSTART", "FOREND"):
                    continue
                if kind_ == "FORINIT":
                    if (k, "init") in blk.lpos:
                        flush()
                        emit_texts(blk.lpos[(k, "init")], "hint")
                    continue
                flush()
                if kind_ == "INV":
                    emit_texts(blk.loops[k], "loopinv", k, "invariant")
                elif kind_ == "FNSTART":
                    emit_texts(blk.fnstart, "hint")
                else:
                    emit_texts(blk.lpos[(k, kind_.lower())], "hint")
                continue
            parts = t.text.split("\n")
            for pi, part in enumerate(parts):
                if pi > 0:
                    flush(force=True)
                if part:
                    if cur_src[0] is None and t.kind != "ws":
                        cur_src[0] = src_line_of(t)
                    cur_txt.append(part)
        flush()
        # fill unknown source lines from the previous known one
        last = start_line
        for (l, info) in out_lines:
            if info.get("kind") == "body":
                if info.get("srcline") is None:
                    info["srcline"] = last
                else:
                    last = info["srcline"]
        # merge the split caused by markers: a marker was placed before `{`; the text before it ended
        # with "\n" and the `{` line begins after.  That is fine for rustc (whitespace).
        # anchored inserts
        for (pos, anchor, nth, text, tl) in blk.inserts:
            hits = [i for i, (l, info) in enumerate(out_lines) if info["kind"] == "body" and anchor in l]
            if len(hits) < nth:
                raise GenError("lost anchor %r (#%d) in %s [template line %d]" % (anchor, nth, where, tl))
            i = hits[nth - 1]
            info = dict(kind="hint", fn=fid, tline=tl, props=props)
            mt = re.match(r"^\s*\[([A-Z0-9,]+)\]\s*(.*)$", text)
            if mt:
                # a tagged inline assertion is part of the CONTRACT (an intermediate clause about the code, e.g. the witness of an
                # existential postcondition), not proof glue: its failure refutes the clause for the tagged properties
                info = dict(info, props=[x for x in mt.group(1).split(",") if x], semantic=True)
                text = mt.group(2)
            if pos == "before":
                out_lines.insert(i, (text, info))
            else:
                out_lines.insert(i + 1, (text, info))
        if opts.get("external_body"):
            g.emit("{ unimplemented!() }", kind="sig", fn=fid, tline=blk.tline, props=props)
        else:
            for (l, info) in out_lines:
                g.lines.append(l)
                g.map.append(info)
        allp = sorted(set(props) | set(x for c in clauses for x in c.get("props", [])) | set(x for x in str(opts.get("safety", "")).split(",") if x)
                      | set(x for x in str(opts.get("inherits", "")).split(",") if x))
        g.fns[fid] = dict(props=props, all_props=allp, deps=[x for x in str(opts.get("deps", "")).split(",") if x],
                          inherits=[x for x in str(opts.get("inherits", "")).split(",") if x],
                          safety=[x for x in str(opts.get("safety", "")).split(",") if x], first_line=fn_first, last_line=len(g.lines), clauses=clauses,
                          external_body=bool(opts.get("external_body")), file=rel, path=" :: ".join(scopes),
                          src_lines=[start_line, end_line])
        rec["fn"] = fid
        used_consts.setdefault(rel, set()).update(re.findall(r"\b[A-Z][A-Z0-9_]{2,}\b", orig))
    _auto_consts(g, repo_root, used_consts)
    _spinoff_all(g)
    return g


_FN_DEF = re.compile(r"^(\s*)((?:pub(?:\([a-z]+\))? )?(?:(?:proof|exec|unsafe|const) )*fn \w+)")


def _spinoff_all(g):
    """Every exec/proof function gets its own solver process (#[verifier::spinoff_prover], put on the same line so that the line map is
    unchanged): functions are then checked in parallel and independently - a refuted function cannot slow down or perturb the
    queries of the functions checked after it (measured: a failing function in the shared solver made the rest of unit `parse` 15x slower)."""
    for i, l in enumerate(g.lines):
        m = _FN_DEF.match(l)
        if not m or "spec fn" in l or re.match(r"^\s*fn main\b", l):
            continue
        j = i - 1
        while j >= 0 and not g.lines[j].strip():
            j -= 1
        if j >= 0 and "spinoff_prover" in g.lines[j]:
            continue
        g.lines[i] = m.group(1) + "#[verifier::spinoff_prover] " + l[len(m.group(1)):]


_SCALAR_TY = r"(?:u8|u16|u32|u64|usize|i8|i16|i32|i64|isize|bool|char)"


def _auto_consts(g, repo_root, used):
    """Rule R-const: a module-level scalar `const NAME: <int|bool|char> = <expr>;` of a source file that an extracted function of that
    file mentions, and that the template does not already define, is extracted too (verbatim, made pub) - so that a change which
    introduces a named constant next to a function still yields a verifiable text."""
    have = g.text()
    add = []
    for rel in sorted(used):
        src = Source.get(repo_root, rel)
        for m in re.finditer(r"(?m)^(?:pub(?:\([a-z]+\))?\s+)?const\s+([A-Z][A-Z0-9_]*)\s*:\s*(" + _SCALAR_TY + r")\s*=\s*([^;{}\n]+);", src.text):
            name = m.group(1)
            if name not in used[rel] or re.search(r"\b(?:const|static)\s+%s\b" % re.escape(name), have) or any(a[0] == name for a in add):
                continue
            add.append((name, "pub const %s: %s = %s;" % (name, m.group(2), m.group(3).strip()), rel, src.line_of(m.start())))
    if not add:
        return
    at = None
    for i in range(len(g.lines) - 1, -1, -1):
        if re.match(r"^\}\s*//\s*verus!", g.lines[i]):
            at = i
            break
    if at is None:
        return
    for (name, text, rel, ln) in add:
        g.lines.insert(at, text)
        g.map.insert(at, dict(kind="spec", tline=0, props=[], auto_const="%s:%d" % (rel, ln)))
        at += 1


def scan_trusted(g):
    """Mechanical scan for assumptions in the generated file."""
    pats = [r"\bassume\s*\(", r"\badmit\s*\(", r"external_body", r"assume_specification", r"#\[verifier::external",
            r"\baxiom\b", r"uninterp\s+spec"]
    found = []
    for i, l in enumerate(g.lines):
        code = l.split("//")[0]
        for p in pats:
            if re.search(p, code):
                # give context: the next non-attribute line
                ctx = code.strip()
                k = i
                while ctx.startswith("#[") and k + 1 < len(g.lines):
                    k += 1
                    ctx = ctx + " " + g.lines[k].strip()
                found.append(dict(line=i + 1, text=re.sub(r"\s+", " ", ctx)[:200]))
                break
    return found
