"""Write MANIFEST.json from the registry (python3 -m vx.manifest)."""
import json
import os
from . import registry

VERIF = os.path.dirname(os.path.dirname(os.path.abspath(__file__)))


def main():
    checks = []
    for pid in sorted(registry.PROPS):
        P = registry.PROPS[pid]
        open_f = [f for f in registry.load_findings() if f.get("property") == pid]
        cat = P.get("level", "proof")
        txt = P.get("level_text", P.get("explanation", ""))
        if open_f and cat == "proof":
            # a proof-level claim needs every obligation discharged; with a recorded, unrepaired defect the honest level is `other`
            cat = "other"
            txt = ("Contract-based proof (Verus) of every clause EXCEPT the recorded known finding(s) - %s - which the check re-derives on every run and reports as "
                   "KNOWN-FINDING; hence level `other`, not `proof`. " % "; ".join(f["obligation"] for f in open_f)) + txt
        checks.append(dict(
            property_id=pid,
            quick_cmd="./check %s --tier quick" % pid,
            thorough_cmd="./check %s --tier thorough" % pid,
            evidence_file="/verif/evidence/%s.json" % pid,
            replay_cmd_template="./check %s --replay {path}" % pid,
            engine="vx",
            level_claimed=dict(category=cat, text=txt,
                               design_ref="DESIGN.md §5 %s" % pid),
            level_note="; ".join(P.get("assumptions", [])) or "see evidence trusted_base",
            technique=P.get("technique", "contract-based deductive verification: Verus discharges requires/ensures/invariant/decreases "
                                         "obligations on functions extracted from /repo on every run"),
        ))
    m = dict(
        version=1,
        setup_cmd="./setup.sh",
        hooks=dict(guard="none",
                   enable="no source hooks: contracts are spliced into text extracted from /repo on every run (Verus), Kani harnesses live in scratch copies",
                   baseline_off_cmd="cd /repo && cargo test --workspace --no-fail-fast --offline",
                   source_commits=[], add_only=True),
        engines=[dict(name="vx", path="/verif/vx", serves_properties=sorted(registry.PROPS),
                      kind_free_text="extractor + contract injector + Verus driver + replay (python3, stdlib only)")],
        checks=checks,
        notes="exit 0 = all obligations of the property discharged; exit 1 = refuted obligation (VIOLATION line); exit 2 = undecided/infrastructure",
        not_applicable=registry.NOT_APPLICABLE,
    )
    with open(os.path.join(VERIF, "MANIFEST.json"), "w") as f:
        json.dump(m, f, indent=1)
    print("MANIFEST.json: %d checks, %d not applicable" % (len(checks), len(registry.NOT_APPLICABLE)))


if __name__ == "__main__":
    main()
