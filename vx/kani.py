"""Auxiliary back end: Kani/CBMC harnesses over text extracted from /repo on every run (floating-point leaves Verus cannot read).
Results are cached by the sha256 of the generated crate (regenerated from /repo each run)."""
import hashlib
import json
import os
import re
import subprocess
import sys
import time

VERIF = os.path.dirname(os.path.dirname(os.path.abspath(__file__)))
BUILD = os.path.join(VERIF, ".build")


def run_harness(spec, repo):
    """spec: dict(gen=<script under /verif>, crate=<dir name>, harness=<name>, claim=<text>). Returns a result dict."""
    t0 = time.time()
    out = os.path.join(BUILD, spec["crate"] + "-" + hashlib.sha1(repo.encode()).hexdigest()[:8])
    # two properties share this harness: checks running side by side must not generate / build the same crate directory at once
    import fcntl
    os.makedirs(BUILD, exist_ok=True)
    lock = open(out + ".lock", "w")
    fcntl.flock(lock, fcntl.LOCK_EX)
    try:
        return _run_harness_locked(spec, repo, out, t0)
    finally:
        fcntl.flock(lock, fcntl.LOCK_UN)
        lock.close()


def _run_harness_locked(spec, repo, out, t0):
    g = subprocess.run([sys.executable, os.path.join(VERIF, spec["gen"]), repo, out], capture_output=True, text=True)
    if g.returncode != 0:
        return dict(spec, status="undecided", detail="extraction failed: " + (g.stderr or g.stdout)[-400:], wall_s=time.time() - t0)
    src = open(os.path.join(out, "src", "lib.rs")).read()
    key = hashlib.sha256((src + "|" + spec["harness"]).encode()).hexdigest()
    cpath = os.path.join(BUILD, "cache", "kani-" + key + ".json")
    if os.environ.get("VX_NOCACHE") != "1" and os.path.exists(cpath):
        r = json.load(open(cpath))
        r["cached"] = True
        return r
    env = dict(os.environ, CARGO_NET_OFFLINE="true")
    env.pop("RUSTUP_TOOLCHAIN", None)
    cmd = ["cargo", "kani", "--harness", spec["harness"]]
    try:
        p = subprocess.run(cmd, cwd=out, env=env, capture_output=True, text=True, timeout=1500)
    except subprocess.TimeoutExpired:
        return dict(spec, status="undecided", detail="kani timed out (1500 s)", wall_s=time.time() - t0)
    txt = p.stdout + p.stderr
    m = re.search(r"\*\* (\d+) of (\d+) failed", txt)
    ok = "VERIFICATION:- SUCCESSFUL" in txt
    failed_checks = re.findall(r"Failed Checks: (.*)", txt)
    vt = re.search(r"Verification Time: ([0-9.]+)s", txt)
    if ok and m:
        status = "proved"
    elif "VERIFICATION:- FAILED" in txt and m:
        status = "refuted"
    else:
        status = "undecided"
    r = dict(spec, status=status, checks=int(m.group(2)) if m else 0, failed=int(m.group(1)) if m else 0, failed_checks=failed_checks[:5],
             solver_s=float(vt.group(1)) if vt else None, cmd="cargo kani --harness %s (cwd %s; crate generated from %s by %s)" % (spec["harness"], out, repo, spec["gen"]),
             detail=txt[-1500:] if status != "proved" else "", wall_s=time.time() - t0,
             back_end="Kani 0.68 / CBMC 6.11, unwinding assertions on")
    if status in ("proved", "refuted"):
        os.makedirs(os.path.dirname(cpath), exist_ok=True)
        json.dump(r, open(cpath, "w"))
    return r
