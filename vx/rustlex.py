"""Minimal Rust lexer: enough to match braces, find items and loops in rustfmt'd source.

Tokens are (kind, text, start, end) with kind in
  ws, lcomment, bcomment, str, char, life, ident, num, punct
Every byte of the input belongs to exactly one token, so "".join(t.text) == src.
"""
import re
from collections import namedtuple

Tok = namedtuple("Tok", "kind text start end")

_ident = re.compile(r"[A-Za-z_][A-Za-z0-9_]*")
_num = re.compile(r"[0-9][A-Za-z0-9_]*(\.[0-9][A-Za-z0-9_]*)?")
_ws = re.compile(r"\s+")


class LexError(Exception):
    pass


def lex(src):
    toks = []
    i, n = 0, len(src)
    while i < n:
        c = src[i]
        m = _ws.match(src, i)
        if m:
            toks.append(Tok("ws", m.group(), i, m.end()))
            i = m.end()
            continue
        if src.startswith("//", i):
            j = src.find("\n", i)
            j = n if j < 0 else j
            toks.append(Tok("lcomment", src[i:j], i, j))
            i = j
            continue
        if src.startswith("/*", i):
            depth, j = 1, i + 2
            while j < n and depth:
                if src.startswith("/*", j):
                    depth += 1
                    j += 2
                elif src.startswith("*/", j):
                    depth -= 1
                    j += 2
                else:
                    j += 1
            toks.append(Tok("bcomment", src[i:j], i, j))
            i = j
            continue
        # raw strings r"..", r#".."#, br".."
        m = re.compile(r'b?r(#*)"').match(src, i)
        if m:
            close = '"' + m.group(1)
            j = src.find(close, m.end())
            if j < 0:
                raise LexError("unterminated raw string at %d" % i)
            j += len(close)
            toks.append(Tok("str", src[i:j], i, j))
            i = j
            continue
        if c == '"' or (c == "b" and src.startswith('b"', i)):
            j = i + (2 if c == "b" else 1)
            while j < n and src[j] != '"':
                j += 2 if src[j] == "\\" else 1
            j += 1
            toks.append(Tok("str", src[i:j], i, j))
            i = j
            continue
        if c == "'" or (c == "b" and src.startswith("b'", i)):
            k = i + (1 if c == "b" else 0)
            # char literal or lifetime
            m = re.compile(r"'(\\x[0-9a-fA-F]{2}|\\u\{[0-9a-fA-F_]+\}|\\.|[^\\'])'").match(src, k)
            if m:
                toks.append(Tok("char", src[i:m.end()], i, m.end()))
                i = m.end()
                continue
            m = re.compile(r"'[A-Za-z_][A-Za-z0-9_]*").match(src, k)
            if m and c == "'":
                toks.append(Tok("life", m.group(), i, m.end()))
                i = m.end()
                continue
            raise LexError("bad quote at %d: %r" % (i, src[i:i + 20]))
        m = _ident.match(src, i)
        if m:
            toks.append(Tok("ident", m.group(), i, m.end()))
            i = m.end()
            continue
        m = _num.match(src, i)
        if m:
            # do not swallow `..` of a range: 0..n
            txt = m.group()
            if "." in txt and src.startswith("..", i + txt.index(".")):
                txt = txt[: txt.index(".")]
            toks.append(Tok("num", txt, i, i + len(txt)))
            i += len(txt)
            continue
        toks.append(Tok("punct", c, i, i + 1))
        i += 1
    return toks


OPEN = {"{": "}", "(": ")", "[": "]"}
CLOSE = {v: k for k, v in OPEN.items()}


def match_close(toks, idx):
    """toks[idx] is an opening bracket; return index of its partner."""
    assert toks[idx].kind == "punct" and toks[idx].text in OPEN, toks[idx]
    stack = []
    for j in range(idx, len(toks)):
        t = toks[j]
        if t.kind != "punct":
            continue
        if t.text in OPEN:
            stack.append(t.text)
        elif t.text in CLOSE:
            if not stack or stack[-1] != CLOSE[t.text]:
                raise LexError("unbalanced %r at offset %d" % (t.text, t.start))
            stack.pop()
            if not stack:
                return j
    raise LexError("no partner for bracket at offset %d" % toks[idx].start)


def code_text(toks):
    """Text of tokens with comments dropped and whitespace collapsed (for header matching)."""
    out = []
    for t in toks:
        if t.kind in ("lcomment", "bcomment"):
            continue
        if t.kind == "ws":
            out.append(" ")
        else:
            out.append(t.text)
    return re.sub(r"\s+", " ", "".join(out)).strip()


def blocks(toks, lo, hi):
    """Yield (hdr_lo, brace_idx, close_idx) for every `HEADER { ... }` block that sits directly
    (bracket depth 0) in toks[lo:hi].  hdr_lo is the token index where the item header starts
    (just after the previous `;`, `}` or `,` at depth 0, or lo)."""
    j = lo
    start = lo
    while j < hi:
        t = toks[j]
        if t.kind == "punct":
            if t.text == "{":
                k = match_close(toks, j)
                yield (start, j, k)
                j = k + 1
                start = j
                continue
            if t.text in ("(", "["):
                j = match_close(toks, j) + 1
                continue
            if t.text == ";":
                start = j + 1
        j += 1


def statements(toks, lo, hi):
    """Yield (start, end) token ranges of items terminated by `;` at depth 0 in toks[lo:hi]
    (used for `static X: T = ...;` / `const` / `type` items whose initialiser may contain braces)."""
    j = lo
    start = lo
    while j < hi:
        t = toks[j]
        if t.kind == "punct":
            if t.text in OPEN:
                k = match_close(toks, j)
                # a brace block that is an item by itself ends the statement unless followed by ;
                nxt = k + 1
                while nxt < hi and toks[nxt].kind in ("ws", "lcomment", "bcomment"):
                    nxt += 1
                if t.text == "{" and not (nxt < hi and toks[nxt].text == ";"):
                    # could be `static X: [u8; 3] = { ... }` without `;`? not valid rust; treat as item end
                    hdr = code_text(toks[start:j])
                    if not re.search(r"\b(static|const)\b[^=]*=", hdr):
                        start = k + 1
                j = k + 1
                continue
            if t.text == ";":
                yield (start, j + 1)
                start = j + 1
        j += 1
