#!/bin/bash
# usage: mut.sh PROP file 'sed-expr'   (runs in /tmp/wt1)
cd /tmp/wt1 && git checkout -q -- . && git checkout -q --detach $(git -C /repo rev-parse HEAD) && sed -i "$3" "$2" && git diff --stat | tail -1
cd /verif && ./check $1 --repo /tmp/wt1 --no-evidence 2>&1 | tail -4; echo "rc=${PIPESTATUS[0]}"
cd /tmp/wt1 && git checkout -q -- .
