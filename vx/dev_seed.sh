#!/bin/bash
# usage: dev_seed.sh <PROP> <agent-out-dir (contains patch.diff demo.rs meta.json)> <seed-id> [other props to run...]
# confirms the seed in a scratch worktree (suite passes, demo fails with / passes without), then applies it to /repo,
# runs the check(s), reverts, and stores everything under /verif/seeded/<seed-id>/
PROP=$1; SRC=$2; ID=$3; shift 3; OTHERS="$@"
set -u
WT=/tmp/seedwt_$$
cd /repo && git worktree add -q $WT HEAD || exit 2
export CARGO_TARGET_DIR=/tmp/seedwt_target CARGO_NET_OFFLINE=true
DC=$(python3 -c "import json,sys;print(json.load(open(sys.argv[1])).get('demo_crate','lexpr'))" $SRC/meta.json 2>/dev/null || echo lexpr)
cd $WT && cp $SRC/demo.rs $DC/tests/seed_demo.rs
base=$(cargo test --offline -p $DC --test seed_demo 2>&1 | grep -E "^test result" | head -1)
git apply $SRC/patch.diff || { echo "patch does not apply"; cd /repo; git worktree remove --force $WT; exit 2; }
mut=$(cargo test --offline -p $DC --test seed_demo 2>&1 | grep -E "^test result" | head -1)
rm $DC/tests/seed_demo.rs
suite=$(cargo test --workspace --offline 2>&1 | grep -E "^test result" | awk '{p+=$4; f+=$6} END {print p" passed, "f" failed"}')
cd /repo; git worktree remove --force $WT
echo "demo without patch: $base"; echo "demo with patch:    $mut"; echo "suite with patch:   $suite"
mkdir -p /verif/seeded/$ID && cp $SRC/patch.diff $SRC/demo.rs /verif/seeded/$ID/
git -C /repo apply $SRC/patch.diff
res=""
for P in $PROP $OTHERS; do
  out=$(cd /verif && ./check $P --no-evidence 2>&1 | tail -3); rc=$?
  rcv=$(cd /verif && ./check $P --no-evidence >/dev/null 2>&1; echo $?)
  echo "check $P -> $out"; res="$res $P:$(echo "$out" | grep -c VIOLATION)"
done
git -C /repo checkout -- .
python3 - "$PROP" "$SRC/meta.json" "$ID" "$base" "$mut" "$suite" "$res" <<'PY'
import json,sys
prop,meta,sid,base,mut,suite,res=sys.argv[1:8]
try: m=json.load(open(meta))
except Exception: m={}
m.update(dict(property=prop, confirmed=dict(demo_without_patch=base, demo_with_patch=mut, suite_with_patch=suite), checks_violation_lines=res.strip(),
  ran="dev_seed.sh: scratch worktree of /repo HEAD; cargo test -p lexpr --test seed_demo before/after git apply; cargo test --workspace with patch; then git -C /repo apply, ./check, git -C /repo checkout -- ."))
json.dump(m,open('/verif/seeded/%s/meta.json'%sid,'w'),indent=1)
PY
