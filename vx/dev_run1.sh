#!/bin/bash
# usage: run1.sh unit
cd /verif
python3 - "$1" <<'PY'
import sys
from vx import gen
u=sys.argv[1]
t=open('units/%s.vrs'%u).read()
g=gen.generate(u,t,'/repo','/verif/units')
open('.build/%s.rs'%u,'w').write(g.text())
PY
[ $? -eq 0 ] || exit 2
cd .build && verus $1.rs --rlimit 30 --output-json --time-expanded --error-format=json --multiple-errors 20 2>$1.err >$1.out; echo rc=$?
python3 - "$1" <<'PY'
import json,sys
u=sys.argv[1]
for l in open('/verif/.build/%s.err'%u):
    try: d=json.loads(l)
    except: print(l.rstrip()); continue
    if d['level']=='warning': continue
    print(d['level'], d['message'], [(s['line_start'],s['label'],s['is_primary']) for s in d['spans']], [c['message'] for c in d['children']])
o=json.load(open('/verif/.build/%s.out'%u))
print(o['verification-results'])
PY
