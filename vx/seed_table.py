"""Dev helper: copy the results of the last seed batch (/verif/.build/final/<id>/) into /verif/seeded/<id>/ and write
/verif/seeded/RESULTS.md (one row per seeded change) plus a summary on stdout."""
import collections
import glob
import json
import os
import shutil

FINAL = "/verif/.build/final"
SEEDED = "/verif/seeded"


def short(s, n):
    s = " ".join((s or "").split())
    return s if len(s) <= n else s[: n - 1] + "…"


def main():
    rows = []
    for d in sorted(glob.glob(FINAL + "/*/meta.json")):
        sid = d.split("/")[-2]
        m = json.load(open(d))
        out = os.path.join(SEEDED, sid)
        os.makedirs(out, exist_ok=True)
        for f in ("patch.diff", "demo.rs"):
            src = os.path.join(FINAL, sid, f)
            if os.path.exists(src) and os.path.abspath(src) != os.path.abspath(os.path.join(out, f)):
                shutil.copy(src, os.path.join(out, f))
        json.dump(m, open(os.path.join(out, "meta.json"), "w"), indent=1)
        p = m.get("property")
        c = (m.get("checks") or {}).get(p, {})
        conf = m.get("confirmed", {})
        valid = conf.get("demo_without_patch", "").startswith("test result: ok") and "ok." not in conf.get("demo_with_patch", "ok.") and conf.get("suite_with_patch", "").endswith(" 0 failed")
        others = "; ".join("%s: exit %s (%s)" % (q, cc.get("exit"), cc.get("detected_by", "")) for q, cc in sorted((m.get("checks") or {}).items()) if q != p)
        rows.append(dict(id=sid, prop=p, what=short(m.get("what", ""), 150), exit=c.get("exit"), by=c.get("detected_by", ""), ob=short(c.get("first_refuted_obligation", ""), 70), valid=valid, others=others,
                         base=conf.get("demo_without_patch", "")[13:40], mut=short(conf.get("demo_with_patch", ""), 40), suite=conf.get("suite_with_patch", "")))
    rows.sort(key=lambda r: (r["prop"], r["id"]))
    lines = ["# Seeded changes: what each check reports", "",
             "Produced by `vx/seed_final.sh` / `vx/seed_table.py` (dev helpers). Each change was made by a sub-agent that saw only the property text,",
             "then confirmed here in a scratch worktree: demo passes without the patch, fails with it, the whole suite passes with it; then",
             "`./check <property> --repo <worktree>` was run. `detected by`: **proof** = a contract clause / safety obligation of the extracted code was",
             "refuted by Verus (or the Kani harness); **standin** = the bounded witness family found a failing input on the real code; **infra** = the change",
             "restructured the code so that extraction or a rewrite rule no longer applied (verifier undecided: the witness search decides).", "",
             "SUMMARY", "",
             "| id | property | change | exit | detected by | first refuted obligation | other properties' checks |", "|---|---|---|---|---|---|---|"]
    for r in rows:
        lines.append("| %s | %s | %s | %s | %s | %s | %s |" % (r["id"], r["prop"], r["what"].replace("|", "/"), r["exit"], r["by"], ("`%s`" % r["ob"].replace("|", "/")) if r["ob"] else "", r["others"]))
    bad = [r for r in rows if not r["valid"]]
    if bad:
        lines += ["", "Not valid at the current HEAD (demo no longer passes without the patch, or no longer fails with it - the code they were written against has been repaired since):", ""]
        for r in bad:
            lines.append("* %s: demo without patch `%s`, with patch `%s`, suite `%s`" % (r["id"], r["base"], r["mut"], r["suite"]))
    stale = sorted(d for d in os.listdir(SEEDED) if os.path.isdir(os.path.join(SEEDED, d)) and d not in set(r["id"] for r in rows))
    if stale:
        lines += ["", "Not re-run (the patch no longer applies to the current HEAD - the lines it changes were rewritten by a fix: commit; the directory keeps the result recorded when it was made): " + ", ".join(stale)]
    ok = [r for r in rows if r["valid"]]
    cnt = collections.Counter()
    per = collections.defaultdict(collections.Counter)
    for r in ok:
        k = "not detected" if r["exit"] != "1" else ("proof" if "proof" in r["by"] else ("standin after infra/undecided" if ("infra" in r["by"] or "undecided" in r["by"]) else "standin only"))
        cnt[k] += 1
        per[r["prop"]][k] += 1
    cols = ["proof", "standin after infra/undecided", "standin only", "not detected"]
    summ = ["%d seeded changes, %d valid at the current HEAD of /repo (the others were written against code that has been repaired since, see the end)." % (len(rows), len(ok)), "",
            "| property | " + " | ".join(cols) + " |", "|---|" + "---|" * len(cols)]
    for p in sorted(per):
        summ.append("| %s | " % p + " | ".join(str(per[p][c]) for c in cols) + " |")
    summ.append("| **all** | " + " | ".join("**%d**" % cnt[c] for c in cols) + " |")
    nd = [r for r in ok if r["exit"] != "1"]
    if nd:
        summ += ["", "Not detected by the check of the property they were written for: " + ", ".join("%s (%s)" % (r["id"], r["others"] or "no other check run") for r in nd) + " - see DESIGN.md 9.4 for the reason in each case."]
    lines[lines.index("SUMMARY")] = "\n".join(summ)
    open(os.path.join(SEEDED, "RESULTS.md"), "w").write("\n".join(lines) + "\n")
    print(len(rows), "seeds,", len(ok), "valid at HEAD:", dict(cnt))
    for p in sorted(per):
        print(" ", p, dict(per[p]))
    for r in ok:
        if r["exit"] != "1":
            print("  MISSED:", r["id"], r["by"])


if __name__ == "__main__":
    main()
