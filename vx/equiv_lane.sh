#!/bin/bash
# dev helper (not part of any registered check). usage: equiv_lane.sh LANE dir...   (each dir has patch.diff): run ALL checks against the refactored tree; any VIOLATION is a false alarm
L=$1; shift
for SRC in "$@"; do
  ID=$(basename $SRC)
  WT=/tmp/eq_wt_$L; git -C /repo worktree remove --force $WT 2>/dev/null; git -C /repo worktree add -q $WT HEAD || continue
  ( cd $WT && git apply $SRC/patch.diff ) || { echo "=== $ID patch does not apply"; git -C /repo worktree remove --force $WT; continue; }
  line="=== $ID"
  for P in C20 C15 C07 C05 C06 C08 C10 C11 C12 C03 C14 C18 C17 C19; do
    out=$(cd /tmp/verif_snap_$L && ./check $P --repo $WT --no-evidence 2>&1); rc=$?
    if [ $rc -ne 0 ]; then line="$line $P:exit$rc"; echo "$out" | grep -E "^VIOLATION|INFRA:|UNDECIDED:|UNSTABLE" | head -3 | cut -c1-260 | sed "s/^/    $ID $P: /"; fi
  done
  echo "$line"
  git -C /repo worktree remove --force $WT
done
echo EQLANEDONE
