#!/bin/bash
# usage: seed_final.sh <LANE> <PROP> <agent-out-dir (patch.diff demo.rs meta.json)> <seed-id> [other props to run...]
# Dev helper (not part of any registered check).  Everything happens in a scratch worktree of /repo HEAD and a snapshot of /verif
# (/tmp/verif_snap_<LANE>), so several lanes can run side by side and neither /repo nor /verif/.build is touched:
#   1. demo passes on the unmodified tree, 2. patch applies, demo fails, 3. the whole suite still passes with the patch,
#   4. ./check <PROP> --repo <worktree> (the same code path as a check of /repo with the patch applied) - exit code and VIOLATION lines.
# Result: /verif/.build/final/<seed-id>/{patch.diff,demo.rs,meta.json}
LANE=$1; PROP=$2; SRC=$3; ID=$4; shift 4; OTHERS="$@"
set -u
WT=/tmp/sf_wt_$LANE; SNAP=/tmp/verif_snap_$LANE; OUT=/verif/.build/final/$ID
export CARGO_TARGET_DIR=/tmp/sf_target_$LANE CARGO_NET_OFFLINE=true
git -C /repo worktree remove --force $WT 2>/dev/null
git -C /repo worktree add -q $WT HEAD || exit 2
DC=$(python3 -c "import json,sys;print(json.load(open(sys.argv[1])).get('demo_crate','lexpr'))" $SRC/meta.json 2>/dev/null || echo lexpr)
cd $WT && cp $SRC/demo.rs $DC/tests/seed_demo.rs
base=$(timeout 900 cargo test --offline -p $DC --test seed_demo 2>&1 | grep -E "^test result" | head -1)
if ! git apply $SRC/patch.diff; then echo "=== $ID: patch does not apply"; cd /; git -C /repo worktree remove --force $WT; exit 2; fi
mut=$(timeout 900 cargo test --offline -p $DC --test seed_demo 2>&1 | grep -E "^test result|panicked|timed out" | head -1)
rm $DC/tests/seed_demo.rs
suite=$(timeout 1800 cargo test --workspace --offline 2>&1 | grep -E "^test result" | awk '{p+=$4; f+=$6} END {print p" passed, "f" failed"}')
res=""
for P in $PROP $OTHERS; do
  out=$(cd $SNAP && ./check $P --repo $WT --no-evidence 2>&1); rc=$?
  kinds=$(echo "$out" | python3 -c "
import sys,re
k=set()
for l in sys.stdin:
    if l.startswith('VIOLATION'):
        k.add('standin' if 'bounded-standin' in l else ('fallback' if 'undecided' in l else 'proof'))
    elif l.startswith('INFRA') or 'INFRA:' in l: k.add('infra')
    elif 'UNDECIDED:' in l: k.add('undecided')
print('+'.join(sorted(k)) or 'none')")
  ob=$(echo "$out" | grep "^VIOLATION" | grep -v bounded-standin | head -1 | sed 's/.*obligation=//' | cut -c1-120)
  res="$res$P:exit$rc:$kinds:$ob;"
done
cd /; git -C /repo worktree remove --force $WT
mkdir -p $OUT && cp $SRC/patch.diff $SRC/demo.rs $OUT/
python3 - "$PROP" "$SRC/meta.json" "$OUT" "$base" "$mut" "$suite" "$res" <<'PY'
import json,sys
prop,meta,out,base,mut,suite,res=sys.argv[1:8]
try: m=json.load(open(meta))
except Exception: m={}
checks={}
for part in res.strip(';').split(';'):
    if not part: continue
    p,rc,kinds,ob=(part.split(':',3)+['','','',''])[:4]
    checks[p]=dict(exit=rc.replace('exit',''), detected_by=kinds, first_refuted_obligation=ob)
m.update(dict(property=prop, confirmed=dict(demo_without_patch=base, demo_with_patch=mut, suite_with_patch=suite), checks=checks,
  ran="vx/seed_final.sh: scratch worktree of /repo HEAD; cargo test -p <demo_crate> --test seed_demo before/after git apply; cargo test --workspace with the patch; then ./check <P> --repo <worktree> from a snapshot of /verif (same code path as a check of /repo with the patch applied)"))
json.dump(m,open(out+'/meta.json','w'),indent=1)
print("=== %s demo:%s | %s | suite:%s | %s" % (out.split('/')[-1], base[13:30], mut[13:36], suite, res))
PY
