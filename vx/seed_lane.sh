#!/bin/bash
# usage: seed_lane.sh LANE  "PROP SRC ID [others]" ...
L=$1; shift
for spec in "$@"; do set -- $spec; PROP=$1; SRC=$2; ID=$3; shift 3
  WT=/tmp/seedrepo_$L; git -C /repo worktree add -q $WT HEAD || continue
  ( cd $WT && git apply $SRC/patch.diff ) || { echo "=== $ID patch does not apply"; git -C /repo worktree remove --force $WT; continue; }
  echo "=== $ID"
  for P in $PROP "$@"; do (cd /tmp/verif_snap_$L && ./check $P --repo $WT --no-evidence 2>&1 | grep -v KNOWN | tail -3 | cut -c1-300 | sed "s/^/  $P: /"); done
  git -C /repo worktree remove --force $WT
done
echo LANEDONE
