"""check driver:  ./check <PROP> [--tier quick|thorough] [--replay FILE] [--repo DIR] [--keep]

exit 0  every obligation tagged with the property discharged (known findings echoed)
exit 1  a tagged obligation was refuted and is not a listed finding   -> VIOLATION line
exit 2  infrastructure (lost anchor, unsupported construct, rlimit, unstable proof, tool crash)
"""
import argparse
import threading
import concurrent.futures as cf
import json
import os
import re
import subprocess
import sys
import time

from . import gen, verus, registry, replay as replay_mod

VERIF = os.path.dirname(os.path.dirname(os.path.abspath(__file__)))
BUILD = os.path.join(VERIF, ".build")


def log(*a):
    print(*a, file=sys.stderr, flush=True)


def build_unit(unit, repo, variant=None):
    tpath = os.path.join(VERIF, "units", unit + ".vrs")
    text = open(tpath, encoding="utf-8").read()
    g = gen.generate(unit, text, repo, os.path.join(VERIF, 'units'))
    os.makedirs(BUILD, exist_ok=True)
    out = os.path.join(BUILD, unit + ".rs")
    txt = g.text()
    # concurrent runs of one unit (other seeds) share this file: never truncate it under a running verifier
    same = False
    try:
        same = open(out, encoding="utf-8").read() == txt
    except OSError:
        pass
    if not same:
        tmp = out + ".%d.%d.tmp" % (os.getpid(), threading.get_ident())
        with open(tmp, "w", encoding="utf-8") as f:
            f.write(txt)
        os.replace(tmp, out)
    return g, out


def run_unit(unit, repo, seed, rlimit):
    t0 = time.time()
    try:
        g, path = build_unit(unit, repo)
    except (gen.GenError, gen.rl.LexError) as e:
        return dict(unit=unit, infra="extraction: %s" % e, wall_s=time.time() - t0)
    # identical generated text + identical flags => identical verifier run: reuse the recorded result of this exact input
    import hashlib, pickle
    key = hashlib.sha256((open(path, encoding="utf-8").read() + "|%s|%s" % (rlimit, seed)).encode()).hexdigest()
    cpath = os.path.join(BUILD, "cache", key + ".pkl")
    r = None
    if os.environ.get("VX_NOCACHE") != "1" and os.path.exists(cpath):
        try:
            r = pickle.load(open(cpath, "rb"))
            r["cached"] = True
        except Exception:
            r = None
    if r is None:
        r = verus.run(path, rlimit=rlimit, seed=seed)
        if r.get("rc") in (0, 1) and r.get("summary"):
            os.makedirs(os.path.dirname(cpath), exist_ok=True)
            tmp = cpath + ".%d.tmp" % os.getpid()
            pickle.dump(r, open(tmp, "wb"))
            os.replace(tmp, cpath)
    attributed = [verus.attribute(d, g, path) for d in r["diagnostics"]]
    return dict(unit=unit, g=g, path=path, res=r, attributed=attributed, wall_s=time.time() - t0)


def obligations_for(prop, ur):
    """List the obligations of property `prop` in a unit run: one per contract clause of every fn
    tagged with the property, one 'safety' bundle per such fn (no overflow / out-of-bounds / failed
    unwrap / unreachable reached / termination), and one per tagged lemma."""
    g = ur["g"]
    obs = []
    for fid, f in g.fns.items():
        if prop not in f.get("all_props", f["props"]):
            continue
        if f["external_body"]:
            continue
        for c in f["clauses"]:
            if prop not in c.get("props", f["props"]):
                continue
            obs.append(dict(id="%s/%s" % (fid, c["id"]), fn=fid, clause=c["id"], text=c["text"],
                            src="%s:%d-%d" % (f["file"], f["src_lines"][0], f["src_lines"][1])))
        if prop in f.get("inherits", []):
            obs.append(dict(id="%s/ensures(trait-spec)" % fid, fn=fid, clause="trait-ensures",
                            text="postcondition inherited from the trait declaration restated in the template (clause tagged %s)" % prop,
                            src="%s:%d-%d" % (f["file"], f["src_lines"][0], f["src_lines"][1])))
        if prop not in (f.get("safety") or f["props"]):
            continue
        obs.append(dict(id="%s/safety" % fid, fn=fid, clause="safety",
                        text="no arithmetic overflow, index in bounds, unwrap/expect on Some/Ok, unreachable!() dead, callee preconditions, termination",
                        src="%s:%d-%d" % (f["file"], f["src_lines"][0], f["src_lines"][1])))
    # lemmas / proof fns in template text tagged with the property
    for i, (l, m) in enumerate(zip(g.lines, g.map)):
        if m.get("kind") == "spec" and prop in (m.get("props") or []):
            mm = re.match(r"^\s*(?:#\[verifier::spinoff_prover\]\s*)?(?:pub\s+)?(?:broadcast\s+)?proof\s+fn\s+([A-Za-z0-9_]+)", l)
            if mm:
                obs.append(dict(id="%s/lemma:%s" % (ur["unit"], mm.group(1)), fn="lemma:" + mm.group(1), clause="lemma",
                                text=l.strip(), src="units/%s.vrs:%d" % (ur["unit"], m.get("tline", 0))))
    return obs


def failure_obligation_id(unit, a):
    fn = a["fn"] or "?"
    if fn.startswith("lemma:"):
        return "%s/%s" % (unit, fn)
    return "%s/%s" % (fn, a["name"])


def main(argv=None):
    ap = argparse.ArgumentParser()
    ap.add_argument("prop")
    ap.add_argument("--tier", default=os.environ.get("VERIF_TIER", "quick"))
    ap.add_argument("--replay")
    ap.add_argument("--repo", default=os.environ.get("VX_REPO", "/repo"))
    ap.add_argument("--no-evidence", action="store_true")
    args = ap.parse_args(argv)
    prop = args.prop
    seed = int(os.environ.get("VERIF_SEED", "0") or 0)
    if prop not in registry.PROPS:
        log("unknown or unclaimed property", prop)
        return 2
    P = registry.PROPS[prop]
    if args.replay:
        return replay_mod.run_replay_file(args.replay, args.repo)
    t0 = time.time()
    tier = "thorough" if args.tier == "thorough" else "quick"
    seeds = [seed] if tier == "quick" else [seed + k for k in range(5)]
    rlimit = P.get("rlimit", 30)
    units = P["units"]
    runs = []
    with cf.ThreadPoolExecutor(max_workers=min(8, max(1, len(units) * len(seeds)))) as ex:
        futs = [ex.submit(run_unit, u, args.repo, s, rlimit) for s in seeds for u in units]
        runs = [f.result() for f in futs]
    infra = []
    obs = {}
    failures = {}    # obligation id -> [attributed]
    undecided = []
    other_failures = []
    first = {}
    for ur in runs:
        if ur.get("infra"):
            infra.append("%s: %s" % (ur["unit"], ur["infra"]))
            continue
        first.setdefault(ur["unit"], ur)
        res = ur["res"]
        if res["rc"] == 124:
            infra.append("%s: verus timed out (wall clock); undecided" % ur["unit"])
            continue
        if res["rc"] not in (0, 1) or not res.get("summary"):
            infra.append("%s: verus rc=%s %s" % (ur["unit"], res["rc"], res["raw_err_tail"][-600:]))
            continue
        # cross-check against the verifier's own count: every function it reports as failed must have produced a diagnostic this engine placed
        n_err = int((res.get("summary") or {}).get("errors", 0) or 0)
        if n_err > 0 and not ur["attributed"]:
            infra.append("%s: verus reports %d failed function(s) but no diagnostic could be read: undecided" % (ur["unit"], n_err))
            continue
        for o in obligations_for(prop, ur):
            obs.setdefault(o["id"], o)
        for a in ur["attributed"]:
            oid = failure_obligation_id(ur["unit"], a)
            if a["cls"] == "infra":
                # a type/syntax/unsupported error anywhere makes the whole unit undecided
                infra.append("%s: %s [%s]" % (ur["unit"], a["message"], a["detail"].get("src") or a["detail"].get("gen_line")))
                continue
            if a["cls"] in ("refuted", "undecided") and not a.get("props"):
                # the verifier rejected something this engine cannot place in any function: never dropped - the unit is undecided
                infra.append("%s: verifier failure that belongs to no property's text (%s, %s): undecided" % (ur["unit"], a.get("fn") or "no function", a["message"]))
                continue
            if prop not in a["props"]:
                other_failures.append(dict(obligation=oid, message=a["message"], props=a["props"]))
                fdeps = ur["g"].fns.get(a.get("fn") or "", {}).get("deps", [])
                _kf0 = registry.load_findings()
                known_other = any(registry.match_finding(_kf0, q, oid) for q in (a.get("props") or []))
                if a["cls"] == "refuted" and not known_other:
                    # modular verification: every caller was checked against this function's CONTRACT.  A contract clause of the unit that does
                    # not hold (other than a recorded known finding) means proofs that used it prove nothing - whichever property the clause is
                    # filed under.  The property is then undecided by the verifier; the witness search on the real code decides.
                    undecided.append(dict(obligation=oid, message="%s refuted (%s): proofs of %s that rely on this contract are void; %s is undecided by "
                                          "the verifier, the owning propert%s (%s) report%s the clause" % ("dependency of %s" % prop if prop in fdeps else "another clause of the unit", a["message"], prop, prop,
                                                                                                   "y" if len(a.get("props") or []) == 1 else "ies", ",".join(a.get("props") or []), "s" if len(a.get("props") or []) == 1 else "")))
                continue
            if a["cls"] == "undecided":
                undecided.append(dict(obligation=oid, message=a["message"]))
                continue
            failures.setdefault(oid, []).append(dict(a, unit=ur["unit"], seed_run=ur["res"]["cmd"]))
    n_expected = P.get("min_obligations", 1)
    if not infra and len(obs) < n_expected:
        infra.append("vacuity guard: %d obligations tagged %s, expected at least %d" % (len(obs), prop, n_expected))
    # refuted obligations: stability triage (a clause that some seed discharges is unstable, not violated)
    violations = []
    unstable = []
    if failures and not infra:
        nruns_per_unit = len(seeds)
        for oid, lst in failures.items():
            if tier == "thorough" and len(lst) < nruns_per_unit:
                unstable.append(oid)
                continue
            violations.append((oid, lst[0]))
        _kf = registry.load_findings()
        known_v = [(oid, a) for oid, a in violations if registry.match_finding(_kf, prop, oid)]
        violations = [(oid, a) for oid, a in violations if not registry.match_finding(_kf, prop, oid)]
        if tier == "quick" and violations:
            # re-run the affected units with two more seeds and a larger rlimit
            aff = sorted(set(v[1]["unit"] for v in violations))
            with cf.ThreadPoolExecutor(max_workers=8) as ex:
                futs = [ex.submit(run_unit, u, args.repo, seed + k, rlimit * 4) for k in (101, 202) for u in aff]
                reruns = [f.result() for f in futs]
            still = {}
            for ur in reruns:
                if ur.get("infra"):
                    continue
                for a in ur["attributed"]:
                    still.setdefault(failure_obligation_id(ur["unit"], a), 0)
                    still[failure_obligation_id(ur["unit"], a)] += 1
            keep = []
            for oid, a in violations:
                if still.get(oid, 0) >= 2:
                    keep.append((oid, a))
                else:
                    unstable.append(oid)
            violations = keep
        violations = known_v + violations
    # known findings
    findings = registry.load_findings()
    known_lines = []
    real = []
    for oid, a in violations:
        kf = registry.match_finding(findings, prop, oid)
        if kf:
            known_lines.append("KNOWN-FINDING: property=%s %s -- %s" % (prop, oid, kf.get("what", "")))
        else:
            real.append((oid, a))
    # replay for real violations
    vio_lines = []
    for oid, a in real:
        path = replay_mod.make_replay(prop, oid, a, args.repo, first.get(a["unit"]))
        tail = "" if path[1] else " no-failing-input-found"
        vio_lines.append("VIOLATION property=%s replay=%s obligation=%s%s" % (prop, path[0], oid, tail))
    # auxiliary Kani harnesses (loop-complete proofs over extracted leaves Verus cannot read)
    kani_results = []
    for spec in P.get("kani", []):
        from . import kani as kani_mod
        kr = kani_mod.run_harness(spec, args.repo)
        kani_results.append(kr)
        oid = "kani/%s" % spec["harness"]
        if kr["status"] == "refuted":
            kf = registry.match_finding(findings, prop, oid)
            if kf:
                known_lines.append("KNOWN-FINDING: property=%s %s -- %s" % (prop, oid, kf.get("what", "")))
            else:
                a = dict(message="Kani: " + "; ".join(kr.get("failed_checks", []))[:300], detail=dict(kani=kr.get("detail", "")[-1200:]), unit=None, fn=spec["harness"], cls="refuted", props=[prop])
                path = replay_mod.make_replay(prop, oid, a, args.repo, None)
                tail = "" if path[1] else " no-failing-input-found"
                vio_lines.append("VIOLATION property=%s replay=%s obligation=%s%s" % (prop, path[0], oid, tail))
                real.append((oid, a))
        elif kr["status"] != "proved":
            infra.append("kani %s: %s" % (spec["harness"], kr.get("detail", "")[-200:]))
    P = dict(P, _kani_results=kani_results)
    # bounded stand-ins for the parts of the property no contract decides: run on every run, labelled bounded
    standin_results, standin_found = replay_mod.standin_search(prop, args.repo, tier, seed)
    P = dict(P, _standin=standin_results)
    for sr in standin_results:
        if sr.get("known_finding_witnesses"):
            for f in findings:
                if f.get("property") == prop and f.get("obligation") == "%s/bounded-standin/%s" % (prop, sr["family"]):
                    known_lines.append("KNOWN-FINDING: property=%s %s -- %s" % (prop, f["obligation"], f.get("what", "")))
    if standin_found is not None:
        # witnesses of recorded findings were skipped by the search itself (witness_messages): whatever it found is new
        if True:
            vio_lines.append("VIOLATION property=%s replay=%s obligation=%s (bounded stand-in: failing input on the real code)" % (prop, standin_found[0], standin_found[1]))
            real.append((standin_found[1], dict(message="bounded stand-in found a failing input", detail={}, unit=None)))
    # evidence
    ev = None
    if not args.no_evidence:
        ev = write_evidence(prop, P, tier, seed, runs, first, obs, failures, violations, real, known_lines, undecided,
                            unstable, infra, other_failures, time.time() - t0, args.repo)
    for l in known_lines:
        print(l)
    if infra or undecided or unstable:
        for x in infra:
            log("INFRA:", x)
        for x in undecided:
            log("UNDECIDED:", x)
        for x in unstable:
            log("UNSTABLE:", x)
    if vio_lines:
        for l in vio_lines:
            print(l)
        return 1
    if infra or undecided or unstable:
        # The verifier could not decide (lost anchor, construct outside the subset, proof hints no longer fit a rewritten
        # function, rlimit).  Bounded stand-in: run the property's witness family against the REAL code.  A concrete failing
        # input is a violation (it replays); finding none leaves the property undecided (exit 2) - never counted as proved.
        reason = "; ".join([str(x)[:200] for x in (infra + [u["message"] for u in undecided] + unstable)][:3])
        fb = replay_mod.fallback_search(prop, reason, args.repo)
        if fb is not None:
            print("VIOLATION property=%s replay=%s obligation=%s (verifier undecided: bounded witness family found a failing input)" % (prop, fb[0], fb[1]))
            return 1
        return 2
    print("OK property=%s obligations=%d discharged=%d units=%s wall=%.1fs" % (
        prop, len(obs), len(obs) - len([o for o in failures if o in obs]), ",".join(units), time.time() - t0))
    return 0


def write_evidence(prop, P, tier, seed, runs, first, obs, failures, violations, real, known_lines, undecided, unstable,
                   infra, other_failures, wall, repo):
    failed_ids = set(failures.keys())
    # an obligation is discharged if its function verified and no diagnostic was attributed to it
    failed_fns = set()
    for oid, lst in failures.items():
        for a in lst:
            if a.get("fn"):
                failed_fns.add(a["fn"])
    discharged = 0
    ob_list = []
    for oid, o in sorted(obs.items()):
        ok = True
        if oid in failed_ids:
            ok = False
        if o["clause"] == "safety" and any(f.startswith(o["fn"] + "/") and f not in obs for f in failed_ids):
            ok = False
        if o["clause"] == "trait-ensures" and any(f.startswith(o["fn"] + "/ensures(trait-spec") for f in failed_ids):
            ok = False
        if o["clause"] == "lemma" and ("%s/%s" % (oid.split("/")[0], o["fn"])) in failed_ids:
            ok = False
        if infra or undecided:
            ok = ok and not infra
        discharged += 1 if ok else 0
        ob_list.append(dict(o, discharged=ok))
    trusted = []
    extraction = []
    fn_stats = []
    smt_ms = 0.0
    cmds = []
    for unit, ur in first.items():
        g = ur["g"]
        for t in gen.scan_trusted(g):
            trusted.append("%s: %s" % (unit, t["text"]))
        for it in g.items:
            if not it["props"] or prop in it["props"] or it["kind"] != "fn":
                extraction.append(dict(unit=unit, file=it["file"], item=it["path"], lines=it["lines"], sha256=it["sha256"][:16],
                                       rewrites=it["rules"]))
        smt_ms += ur["res"].get("smt_ms") or 0
        cmds.append(ur["res"]["cmd"] + (" [result reused: identical generated text and flags as an earlier run in this /verif/.build]" if ur["res"].get("cached") else ""))
        for fid, f in g.fns.items():
            if prop in f.get("all_props", f["props"]):
                fn_stats.append(dict(fn=fid, src="%s:%d-%d" % (f["file"], f["src_lines"][0], f["src_lines"][1]),
                                     clauses=len(f["clauses"]), assumed=f["external_body"]))
    trusted += P.get("trusted", [])
    level = P.get("level", "proof")
    open_findings = [l for l in known_lines]
    if open_findings and level == "proof":
        level = "other"
    # show the property's own clauses first (tagged contract clauses, inherited trait clauses, lemmas), safety bundles last
    pref = sorted(ob_list, key=lambda o: (o["clause"] == "safety", "[%s" % prop not in o.get("text", "") and prop not in str(o.get("tags", "")), o["id"]))
    step = max(1, len(pref) // 12)
    samples = [dict(obligation=o["id"], clause=o["text"], source=o["src"], discharged=o["discharged"]) for o in (pref[:6] + pref[6::step][:6])]
    cov = dict(
        obligations=len(ob_list),
        discharged=discharged,
        checker_cmd="; ".join(sorted(set(cmds))) + " (cwd /verif/.build; files generated from /repo by vx/gen.py)",
        trusted_base=sorted(set(trusted)),
        samples=samples,
        explanation=P.get("explanation", ""),
        functions_under_contract=[f for f in fn_stats if not f["assumed"]],
        assumed_functions=[f for f in fn_stats if f["assumed"]],
        back_end="Verus 0.2026.09.13 / Z3 (bundled)",
        solver_ms=smt_ms,
        seeds=sorted(set(int(re.search(r"random_seed=(\d+)", ur["res"]["cmd"]).group(1)) for ur in runs if ur.get("res") and "random_seed" in ur["res"]["cmd"])),
        units=sorted(first.keys()),
        extraction=extraction,
        refuted=[dict(obligation=oid, message=a["message"], at=a["detail"]) for oid, a in violations],
        known_findings=known_lines,
        undecided=undecided, unstable=unstable, infrastructure=infra,
        other_properties_failures=other_failures[:20],
        bounded=P.get("_standin", P.get("bounded", [])),
        not_covered=P.get("not_covered", []),
    )
    kres = P.get("_kani_results")
    if kres:
        cov["kani_harnesses"] = kres
        for kr in kres:
            cov["obligations"] += kr.get("checks", 0)
            cov["discharged"] += (kr.get("checks", 0) - kr.get("failed", 0)) if kr.get("status") == "proved" else 0
            cov["solver_ms"] = (cov.get("solver_ms") or 0) + 1000.0 * (kr.get("solver_s") or 0)
        cov["back_end"] += "; Kani 0.68 / CBMC 6.11 for the floating-point leaf (coverage.kani_harnesses)"
        cov["checker_cmd"] += "; " + "; ".join(kr.get("cmd", "") for kr in kres)
    ev = dict(property_id=prop, tier=tier, seed=seed, level=level, coverage=cov,
              assumptions=P.get("assumptions", []) + ["see coverage.trusted_base for the mechanically scanned list"],
              wall_s=round(wall, 2), violations=len(real))
    os.makedirs(os.path.join(VERIF, "evidence"), exist_ok=True)
    with open(os.path.join(VERIF, "evidence", prop + ".json"), "w") as f:
        json.dump(ev, f, indent=1)
    return ev


if __name__ == "__main__":
    sys.exit(main())
