"""Property registry: which units / harnesses decide which property, and what is assumed."""
import json
import os

VERIF = os.path.dirname(os.path.dirname(os.path.abspath(__file__)))

STD_TRUST = [
    "Verus/Z3 soundness; vstd's specifications of core/alloc (Option, Result, Vec, slices, integer ops)",
    "rewrite table of vx/gen.py is meaning-preserving (R0 strips docs/attributes/visibility; per-item rewrites are listed under coverage.extraction[].rewrites)",
]

PROPS = {
    "C20": dict(
        units=["val"],
        level="proof",
        min_obligations=150,
        replay_family="c20",
        explanation="Every accessor, predicate, From conversion and comparison helper of number.rs, value/mod.rs, value/from.rs and "
                    "value/partial_eq.rs is extracted from /repo and verified by Verus against postconditions transcribed from the property "
                    "(truth tables over the kind, payload preservation, comparison == accessor comparison). Unbounded over all payloads.",
        assumptions=[
            "int->float `as` casts and f32->f64 widening are an uninterpreted relation in Verus (vstd::float::float_cast_spec): "
            "the contract pins *which* cast is performed, not its rounding; rounding to nearest is IEEE/rustc behaviour (trusted)",
            "macro-generated impls (impl_from_*!, partialeq_numeric!) are verified per instantiation by textual substitution of the macro parameter",
        ],
        trusted=STD_TRUST,
    ),
}


def load_findings():
    p = os.path.join(VERIF, "known_findings.json")
    if not os.path.exists(p):
        return []
    return json.load(open(p)).get("open", [])


def match_finding(findings, prop, oid):
    for f in findings:
        if f.get("property") == prop and f.get("obligation") == oid:
            return f
    return None
