"""Property registry: which units / harnesses decide which property, and what is assumed."""
import json
import os

VERIF = os.path.dirname(os.path.dirname(os.path.abspath(__file__)))

STD_TRUST = [
    "Verus/Z3 soundness; vstd's specifications of core/alloc (Option, Result, Vec, slices, integer ops)",
    "rewrite table of vx/gen.py is meaning-preserving (R0 strips docs/attributes/visibility; per-item rewrites are listed under coverage.extraction[].rewrites)",
]

PROPS = {
    "C14": dict(
        units=["serde"],
        level="proof",
        min_obligations=60,
        replay_family="c14",
        bounded=[dict(family="c14", what="to_value of derived Serialize impls == documented shape; from_value of the alternative encodings", bound="25 typed values + 32 alternative encodings / rejections")],
        explanation="serde-lexpr/src/value/ser.rs is extracted from /repo and every Serializer method and every collector (SerializeList, SerializeVector, "
                    "SerializeTupleVariant, SerializeMap, SerializeStruct, SerializeStructVariant: serialize_element/field/key/value/entry and end) is verified to build exactly "
                    "the documented shape as a function of the children's S-expressions: seq/set -> mk_list(items, ()), tuple/tuple struct -> Vector(items), map -> list of "
                    "(key . value) cells, struct -> list of (symbol(field) . value), None -> (), Some(x) -> (x), unit/unit struct -> (), newtype struct -> its content, unit "
                    "variant -> symbol, newtype variant -> (name . payload), tuple variant -> (name item...), struct variant -> (name (field . value)...), bytes -> byte vector, "
                    "char -> character, every integer width -> the integer of the same mathematical value (num_of_int(v)). Deserializer side (value/de.rs): deserialize_seq accepts "
                    "(), vectors and lists, deserialize_tuple accepts vectors and lists, everything else is an Err; ListAccess rejects a non-null, non-cons tail; MapAccess "
                    "rejects non-pair entries and improper tails; UnitVariantAccess rejects newtype/tuple/struct payloads; every such error is a data error (C18). "
                    "ACCEPTANCE is proved as delegation: every deserialize_* method, on a value of the documented kind, hands exactly the documented payload to the matching "
                    "visit_* of the visitor and returns its result unchanged (bool, char, str/string/identifier, bytes, unit, option -> none / some(car), newtype, "
                    "seq/tuple/tuple struct -> visit_seq on a ListAccess / VecAccess positioned at the first element, map/struct -> visit_map on a MapAccess at the first entry, "
                    "enum -> visit_enum, any -> per kind), and the access objects hand each element / key / value in order to the seed and return its result, moving the cursor by "
                    "exactly one (so e.g. an empty vector is a sequence, a one-element list is a 1-tuple, `()` is None, nothing is skipped or read twice).",
        assumptions=[
            "serde::Serialize is modelled by trait Serialize { ser_val } (a child's impl returns what the serializer methods it calls return): ASSUMED for derive-generated code",
            "`impl ser::Serializer for Serializer` and the collector impls are verified as inherent impls (serde's traits are external); where two serde traits give one type a "
            "method of the same name the second is renamed (end_tuple_struct)",
            "to_value is verified with signature (value: &T)",
            "serde's Visitor / DeserializeSeed are modelled by traits whose visit_* / deserialize results are deterministic functions of what they are handed "
            "(spec functions *_outcome): ASSUMED for derive-generated visitors; this is what lets a contract say `the result is the visitor's result on this payload`",
            "str.into() / [u8].into() / Vec.into(): Box conversions with assumed view-preserving specs",
        ],
        trusted=STD_TRUST,
    ),
    "C18": dict(
        units=["serde"],
        level="proof",
        min_obligations=50,
        replay_family="c18",
        bounded=[dict(family="c18", what="from_value::<T>(v) never panics, errors are Data, accepted values re-serialize and read back equal",
                      bound="about 330 values (atoms, lists, pairs, vectors, alists, improper lists, variant shapes) x 37 target types, and 24 values x 2 untagged enums (types that deserialize through deserialize_any; "
                            "their seven failing witnesses on the unchanged tree are the open known finding D17)")],
        explanation="PROVED (Verus, unbounded in the value): serde-lexpr/src/value/de.rs is extracted from /repo: all 30 deserialize_* methods (the 10 numeric ones per macro "
                    "instantiation), invalid_value, from_value, ConsAccess / ListAccess / VecAccess / MapAccess / VariantAccess / UnitVariantAccess are free of panics - index in "
                    "bounds, idx counter cannot overflow, and the single expect() (MapAccess::next_value_seed) is dead under serde's documented MapAccess protocol (ghost "
                    "has_entry, established by next_key_seed returning Some) - and every error they construct goes through Error::invalid_type -> Error::custom, verified to be "
                    "ErrorImpl::Message, which Error::classify (verified) maps to Category::Data; errors handed on come from the visitor/seed (assumed data, see assumptions) or "
                    "from the access objects (proved). Per-method part of `not misread`: on a value of the documented kind each deserialize_* method hands exactly that payload to the "
                    "matching visit_* and returns its result, and the access objects deliver every element in order (the acceptance clauses shared with C14; the rejection clauses are "
                    "C14 only - C18 allows alternative encodings). NOT PROVED: `accepted alternative encodings are normalised` (serialize(x) reads back as x) relates derive-generated "
                    "Serialize and Deserialize impls of an arbitrary T: BOUNDED stand-in on every run.",
        assumptions=[
            "serde's Visitor / DeserializeSeed / Deserialize implementations (serde, serde_derive) are modelled by traits DeVisitorBase/DeVisitor/DeSeed/DeDeserialize whose methods "
            "may return any value or any DATA error (their own errors come from serde::de::Error constructors, which end in Error::custom): ASSUMED",
            "visitors follow serde's MapAccess protocol (next_value_seed only directly after next_key_seed returned Some): ASSUMED, as serde documents",
            "visit_number (a function-local struct implementing lexpr::number::Visitor) is assumed to return what the visitor returns",
            "message formatting (format_args!/to_string) is std: an arbitrary String",
            "Visitor is split into DeVisitorBase + DeVisitor (visit_enum) because Verus rejects the trait cycle Visitor -> EnumAccess -> VariantAccess -> Visitor",
        ],
        not_covered=["serde-lexpr/src/de.rs, ser.rs (text layer: delegates to lexpr's parser/printer)", "self-consistency clause (bounded stand-in only)"],
        trusted=STD_TRUST,
    ),
    "C17": dict(
        units=["parse", "print"],
        level="proof",
        min_obligations=40,
        replay_family="c17",
        bounded=[dict(family="c17", what="supplementary end-to-end stand-in for what sits outside the extracted text (Display for Value, the to_string String equals the bytes written), and concrete witnesses: ill-formed UTF-8 inside strings, symbols, "
                                         "keywords and characters from byte-slice and stream sources is rejected (or returned as bytes); &str and byte-slice sources agree on multi-byte text",
                      bound="14 ill-formed sequences x 17 contexts (incl. `?` / `?\\` / `#\\` / `#\\x` characters, quotes, vectors, string escapes) x 2 option sets x 2 sources and the one-shot entry points; 28 multi-byte / escape texts x 2 option sets; 9 values x 3 printer option sets; every scalar below U+0300 (+36 across the range) as a hex escape from &str and printed as char/string/symbol x 2 option sets")],
        explanation="PROVED (Verus, unbounded), input half: a `str` is built from input bytes in exactly two ways. (1) CHECKED - as_str (std::str::from_utf8): Ok only for "
                    "valid_utf8 bytes, an error otherwise; every scanner of the byte-slice and stream sources and the Emacs string scanner go through it. (2) UNCHECKED - "
                    "`unsafe str::from_utf8_unchecked` on the &str source's fast paths (symbols, R6RS strings): its safety precondition valid_utf8(bytes) is a `requires` of "
                    "the extracted helper and is DISCHARGED at all four call sites: the &str source's input is well-formed (StrRead::new, from the str), the scan starts at a "
                    "position that is not inside a character (ghost `at_boundary` on the source trait: established whenever the byte under the cursor is ASCII, after any ASCII "
                    "byte was consumed, and after decode_utf8_sequence consumed a complete, validated character; required by Read::parse_symbol / parse_r6rs_str and proved at "
                    "every call in parse_token / parse_list / parse_list_meta), stops at an ASCII terminator or quote, and what is copied into the scratch buffer is a "
                    "concatenation of such cuts, ASCII escape results and encode_utf8 of a char (parse_r6rs_escape keeps the scratch buffer well-formed and ends after an ASCII "
                    "byte). Character literals: parse_r6rs_char / parse_elisp_char (and the trait methods of all three sources) return a character for a first byte >= 0x80 "
                    "only if the bytes consumed for it form a well-formed UTF-8 sequence (utf8_consumed) - a stray continuation byte can never become a character. The UTF-8 facts (a position not inside a character is a boundary and vice versa, cuts at such positions, well-formed prefixes and chunks, ASCII) "
                    "are proved from vstd::utf8's definitions, no axiom added. PROVED (Verus, unbounded), output half: to_string / to_string_custom call `unsafe String::from_utf8_unchecked(vec)`; "
                    "its safety precondition valid_utf8(vec) is a `requires` of the extracted helper and is discharged at both call sites from (a) to_vec's proved text equation "
                    "vec == txt_value(options, value) - every emitting function of print.rs is verified against its piece of that text - and (b) lemma_txt_value_valid: "
                    "valid_utf8(txt_value(o, v)) for every option set and every value, by structural induction over the value (lists, dotted tails, vectors) with per-piece lemmas: "
                    "literal delimiters and #-tokens are ASCII, characters print as ASCII (#\\x / ?\\x + lower-case hex for anything outside 32..127), byte vectors as decimal octets or "
                    "octal escapes, symbol and keyword names are `str`s, and string escaping replaces ASCII bytes by ASCII texts and copies every byte >= 0x80 in place, so the "
                    "character structure of the `str` is kept (induction from boundary to boundary). A change that emits a non-ASCII scalar as `n as u8` fails the emitting "
                    "function's text clause.",
        assumptions=[
            "axiom_number_text_utf8: the texts of itoa::Buffer::format and ryu::Buffer::format_finite (uninterpreted dec_int / ryu_text) are well-formed UTF-8 because those crates return them as `&str`",
            "String::from_utf8_unchecked(v) is modelled as returning the String whose UTF-8 encoding is v (std); the sink model of unit print (Write: sunk/offered) as for C07",
            "the non-fast-float build's f64_from_parts (from_utf8_unchecked on itoa output) is not extracted (only the default feature set is)",
            "vstd's axiom that a Rust `str` is well-formed UTF-8 (s.spec_bytes() == encode_utf8(s@))",
        ],
        not_covered=["`impl Display for Value`: the adaptor WriterFormatter::write is extracted (unit print) and converts each written chunk with the CHECKED std::str::from_utf8, so no ill-formed str can arise there; Display::fmt itself (two lines) is not under contract"],
        trusted=STD_TRUST,
    ),
    "C19": dict(
        units=["parse", "serde"],
        level="proof",
        min_obligations=60,
        replay_family="c19",
        bounded=[dict(family="c19", what="every proper prefix of a datum that fails to parse fails with an EOF-category error; error locations in bounds; io::Error kinds",
                      bound="35 datums x all proper prefixes (default options) + 7 datums x all prefixes (Emacs options) + 22 malformed texts x 2 option sets x 3 sources + reader failing at 4 offsets")],
        explanation="PROVED (Verus, unbounded): (location) every function that can return an error carries err_ok(r, input): a non-I/O error has a location that is "
                    "pos_line/pos_col of SOME PREFIX of the input (errors are only built by error()/peek_error()/read::error from Read::position/peek_position, which "
                    "are proved equal to the position of the consumed bytes [+ the byte under the cursor] for all three sources), and lemma_loc_in_bounds shows such a "
                    "position has 1 <= line <= 1 + number of newlines and a column that counts bytes since the start of its line with no newline in between (so it never "
                    "exceeds that line's length); (conversion) From<Error> for io::Error returns the wrapped error for Io, kind InvalidData for Syntax, UnexpectedEof for "
                    "Eof, its unreachable!() is dead; Error::classify == the documented category table; the serde companion crate's error type wraps a parse error unchanged "
                    "and converts to io::Error the same way (unit serde: the wrapped read failure is handed to lexpr's own conversion, its unreachable!() is dead); (truncation, at the six lexer sites the property names) when the "
                    "input ends inside #nil/#u8/#vu8 (expect_ident), before the first digit (parse_num_literal), right after the decimal point (parse_decimal), after the "
                    "exponent marker or its sign (parse_exponent), or inside a UTF-8 sequence (decode_utf8_sequence), a non-I/O error is EOF-category; (truncation right after "
                    "an opening token) when nothing but trivia follows where a datum or a closing delimiter must come - after `(` `[` `#(` `#u8(` (parse_list(_meta), "
                    "parse_vector(_meta), parse_byte_list, end_seq), at expect_value / expect_datum - the call returns an error and it is I/O or EOF-category (the same clause for the "
                    "quote shorthands was written and withdrawn: it made next_datum's proof unstable across solver seeds; the c19 stand-in covers it). "
                    "NOT PROVED: the global statement `prefix of a valid datum => EOF` needs the grammar of valid datums: BOUNDED stand-in on every run.",
        assumptions=[
            "std::io::Error::new(kind, payload) produces an error of that kind (IoErr::new, assumed); io::ErrorKind is modelled by a three-variant enum",
            "f64_from_parts / f64_from_radix_parts are assumed to report their NumberOutOfRange error through Parser::error (location clause assumed for them)",
        ],
        not_covered=["truncation inside R6RS character names and inside a multi-byte character of a symbol (open known finding)", "global prefix => EOF statement (bounded stand-in only)"],
        trusted=STD_TRUST,
    ),
    "C20": dict(
        units=["val"],
        level="proof",
        min_obligations=150,
        replay_family="c20",
        bounded=[dict(family="c20", what="the ASSUMED part only: int->float `as` casts and f32 widening round to nearest (accessor results compared with Rust's own casts); plus a sample of every proved clause", bound="99 cases: boundary integers (0, +-1, 2^53+-1, i64/u64 extremes), floats (+-0, NaN, inf, fractional), all kinds of Value")],
        explanation="Every accessor, predicate, From conversion and comparison helper of number.rs, value/mod.rs, value/from.rs and "
                    "value/partial_eq.rs is extracted from /repo and verified by Verus against postconditions transcribed from the property "
                    "(truth tables over the kind, payload preservation, comparison == accessor comparison). Unbounded over all payloads.",
        assumptions=[
            "int->float `as` casts and f32->f64 widening are an uninterpreted relation in Verus (vstd::float::float_cast_spec): "
            "the contract pins *which* cast is performed, not its rounding; rounding to nearest is IEEE/rustc behaviour (trusted)",
            "macro-generated impls (impl_from_*!, partialeq_numeric!) are verified per instantiation by textual substitution of the macro parameter",
        ],
        trusted=STD_TRUST,
    ),
    "C15": dict(
        units=["list"],
        level="proof",
        min_obligations=100,
        replay_family="c15",
        bounded=[dict(family="c15", what="sample of the proved clauses on the real crate (construction/traversal/indexing agree)", bound="74 cases: lists of length 0-4, dotted tails of every kind, nested lists, all index types")],
        explanation="cons.rs, the list constructors/traversals of value/mod.rs and value/index.rs are extracted from /repo and verified against the "
                    "abstract view (elems, tail) of a cons chain: append/list == mk_list (functional proof through the &mut cursor with a prophecy "
                    "invariant), to_vec/to_ref_vec/into_vec return (elems, tail) and their unreachable!() is dead, Iter/IntoIter/ListIter follow the "
                    "documented state machines (lemma_list_iter_protocol: xs then None,t,None), is_list/is_dotted_list == tail==Null and are complementary, "
                    "usize/str/String/&T/Value indexing == first-match specs and cannot panic. Unbounded in list length and element kinds.",
        assumptions=[
            "generic parameters are verified at the instantiation I=Vec<Value>, T=U=Value (conversion of other element types is From, covered by C20)",
            "iterator adapters with closures (.all, .find_map) are replaced by their std definitions as explicit loops (rewrites listed per item)",
            "derived Clone/PartialEq of Value have no source text: clone returns an equal value, == is an uninterpreted relation value_eq",
            "Cons::drop, Value::vector, From<Cow<str>> are not under contract",
        ],
        trusted=STD_TRUST,
    ),
    "C07": dict(
        units=["print"],
        level="proof",
        min_obligations=60,
        replay_family="c07",
        bounded=[dict(family="c07", what="the ASSUMED parts: itoa/ryu texts and write!(..{:x}) emitters deliver through short-writing sinks; entry points to_writer/to_vec/to_string/Display agree", bound="980 cases: (value, option set) pairs x sinks accepting 0/1/2/3 bytes per write, failing after k bytes, failing once; entry-point agreement")],
        explanation="print.rs is extracted from /repo and verified against a sink model of std::io::Write in which every `write` call may accept "
                    "ANY number n <= len of bytes (all short-write schedules at once) and `write_all` delivers everything or fails having delivered a prefix. "
                    "Every Formatter method (default bodies verified once per implementor, DefaultFormatter at the default option set, CustomizedFormatter for "
                    "all option sets symbolically), the number visitor, the byte-vector element closures, the char/string escape writers carry "
                    "emits(r, sunk_before, sunk_after, txt_X(options, arg)): Ok => exactly the text, Err => a prefix of it. The entry points to_writer / "
                    "to_writer_custom (at the instantiation W = &mut V: a ghost `fut` token on the sink model carries `the writer still borrows the same sink` "
                    "through every emitter), to_vec(_custom) (the Vec holds exactly the text) and to_string(_custom) are under the same contract. "
                    "`impl Display for Value`: the io::Write adaptor around the fmt::Formatter (value/mod.rs WriterFormatter::write / flush) is extracted and verified as an "
                    "implementor of the same sink contract - Ok(n) means exactly the first n bytes of the buffer reached the Formatter, an error means none did - so "
                    "everything to_writer guarantees for a sink holds for Display's sink. print::Options: Options::default() / Options::elisp() equal the documented option sets "
                    "(popts_default / popts_elisp - the set the default printer is verified at, so `the customised printer with default options agrees with the default printer` "
                    "is the same text equation) and each with_* builder sets exactly its own field.",
        assumptions=[
            "std::io::Write contract as documented (sink model inc/sink.vrs); itoa/ryu output are uninterpreted texts dec_int / ryu_text",
            "write!(w, \"LIT{:x}\", n) is replaced by an assumed all-or-prefix emitter of LIT ++ lower_hex(n) (rule R8)",
            "the Formatter trait header is restated (split into FormatterBase/Formatter to avoid a Verus trait cycle); default method bodies are verified per implementor",
            "write_scheme_vector / Number::visit are verified at the instantiations used by print.rs with the literal closures defunctionalised (R10)",
            "core::fmt::Formatter is an opaque text sink (FmtFormatter): write_str appends the whole str or fails having appended nothing (assumed); the adaptor struct is "
            "restated with one ghost field (bytes offered so far); its write_all is std's default method (assumed to meet the sink contract, as for every sink); "
            "the two-line Display::fmt (construct adaptor, call to_writer, map the error) is not under contract (DESIGN 9.8)",
        ],
        trusted=STD_TRUST,
    ),
    "C05": dict(
        units=["parse"],
        level="proof",
        min_obligations=15,
        replay_family="c05",
        both_float_cfgs=True,   # the stand-in runs against lexpr built with AND without fast-float-parsing (the property names both builds)
        kani=[dict(gen="kani/gen_f64.py", crate="kani_f64", harness="f64_from_parts_safe",
                   claim="Parser::f64_from_parts (fast-float build), extracted from /repo with the POW10 table: for ALL (sign, significand: u64, exponent: i32) no panic "
                         "(table index in bounds, exponent arithmetic cannot overflow), the scaling loop ends within 7 rounds (unwinding assertion on: complete, the value "
                         "reaches 0.0 after two divisions by 1e308), and an Ok result is never infinite or NaN")],
        bounded=[dict(family="c05", what="the ASSUMED part: f64_from_parts (floating-point scaling) gives the nearest double on the exact path and the documented accuracy elsewhere; integer boundaries in every radix", bound="about 250 cases per build: 50 decimal literals incl. subnormal/extreme/over-long, 9 boundary integers x 5 radix prefixes x 3 signs, 5 over-long integers, 8 integers just past the 64-bit range, 20 magnitudes no double can hold (decimal and #b/#o/#x), 9 significands x every written exponent -345..309 (every power-of-ten scale the conversion can be asked for, both exponent spellings) and 4 (quick) / 320 (thorough) x 400 random decimal literals of 1..24 digits, all compared with std's correctly rounded str::parse::<f64> (exact when the statement says exact - incl. the 19-digit clause in the build without fast-float-parsing - within 2^-50 otherwise, an error when no double can hold the value)")],
        explanation="The number scanner of parse/mod.rs (parse_num_literal, parse_long_integer, parse_num_tail, parse_decimal, parse_exponent, "
                    "parse_radix_literal) is extracted from /repo and verified against a declarative grammar (sp_num_literal / sp_num_tail / sp_decimal / "
                    "sp_exponent written from the C05 statement): digit runs of any length in radix 2/8/10/16, exact u64 value by induction over the digit "
                    "loop (overflow! macro expanded, nonlinear lemma), sign application incl. the i64::MIN boundary and the float fall-back, fraction digits "
                    "absorbed into the significand with the exponent decremented per digit, saturating exponent arithmetic, and the (significand, exponent) "
                    "pair handed to f64_from_parts.",
        assumptions=[
            "f64_from_parts is floating-point arithmetic over a 309-entry table: in Verus an uninterpreted function f64_parts_spec(pos, significand, exponent); "
            "that it never panics and never returns infinity/NaN is PROVED separately by the Kani harness f64_from_parts_safe (all inputs); correct rounding on the exact "
            "path follows from IEEE-754 (one rounding of a product of two exactly represented factors) and is not machine-checked",
            "an over-long integer in radix r must equal radix_scale_spec(sig, r, k); for r = 10 this is f64_parts_spec (axiom)",
            "`x as i64` out-of-range cast, `-(x as f64)`, i64::wrapping_neg, i32::saturating_add/sub: assumed std semantics",
            "only the fast-float-parsing configuration of f64_from_parts is extracted",
        ],
        trusted=STD_TRUST,
    ),
    "C06": dict(
        units=["parse", "serde"],
        level="proof",
        min_obligations=40,
        replay_family="c06",
        bounded=[dict(family="c06", what="same bytes through &str, &[u8] and io::Read (chunk sizes 1/2/3/64, Interrupted every 2nd/3rd call) give the same values or the same "
                                         "error category and kind - end-to-end complement of the proofs (one-shot entry points, option defaults per source kind, read-error kinds); a hard read error "
                                         "injected at every offset yields an I/O error or the already determined outcome",
                      bound="46 texts (symbols, strings with escapes, chars, numbers, comments, nested and truncated forms) x 2 option sets x 5 read schedules; error injection at every offset x 2 schedules")],
        explanation="The three sources (SliceRead, StrRead, IoRead over LineColIterator) are extracted from /repo and each verified against ONE shared "
                    "contract (trait ReadBase/Read restated with specs): next/peek/discard are exact functions of the unread bytes `rest()`, with the "
                    "protocol `discard only after a successful peek` (ghost `peeked`) enforced at all 40 discard sites; the three symbol scanners all satisfy "
                    "sym_result; the separately written STRING scanners are verified against ONE functional specification each - sp_r6rs_str (R6RS literals: content, every escape "
                    "incl. \\x<hex>;, end position) and sp_elisp_str (Emacs Lisp literals: content, all escape forms, the unibyte/multibyte decision, end position): "
                    "SliceRead::parse_r6rs_str_bytes (checked and unchecked instance), IoRead::parse_r6rs_str_bytes, SliceRead::parse_elisp_str_bytes, IoRead::parse_elisp_str, "
                    "parse_r6rs_escape, parse_elisp_escape and the numeric escape decoders, with the clause on the trait methods Read::parse_r6rs_str / parse_elisp_str - so all "
                    "three sources yield the same string for the same bytes, for every input; characters are read by generic code shared by all sources; "
                    "the parser is generic code verified once against that contract, so it cannot distinguish sources except through it. "
                    "Read errors: a ghost flag `failed()` is raised by the stream model when the underlying iterator yields Err; every function that touches "
                    "the source carries io_ok(result, failed_before, failed_after): a failure raised during the call makes the call return Err, and an "
                    "I/O-category error is only ever produced when the source failed - so a read failure is never turned into a value or into end of input, "
                    "for all byte streams and all failure points. The serde companion crate's view of such an error (unit serde, serde-lexpr/src/error.rs): "
                    "From<io::Error> / From<parse::Error> wrap the error unchanged, Error::classify maps the parser's category Io / Eof / Syntax to the same "
                    "category, and From<serde_lexpr::Error> for io::Error is total (its unreachable!() arm is proved dead; before fix 9b371ba it was reachable "
                    "for exactly the read-failure case, D16).",
        assumptions=[
            "unit serde sees lexpr::parse::Error and io::Error as opaque types (PErr with an uninterpreted category sp_classify that PErr::classify returns - decided in unit parse -, IoErr); "
            "lexpr's conversion of a parse error into io::Error and io::Error::new are opaque calls there (vx_perr_into_io, vx_io_error_new)",

            "std::io::Bytes<R> (splitting into read calls, retry on Interrupted) is std code: modelled by trait ByteIter (prophetic `ahead`, `gone`, `broken`), "
            "ASSUMED: an Err item delivers no byte and loses none, None is only reported when nothing is ahead, fewer than usize::MAX bytes are delivered",
            "scalar_utf8(n) is DEFINED as vstd's encode_utf8 of the char with code n (char::encode_utf8 / char::from_u32 carry assumed std specifications)",
            "IoRead is verified with `R` standing for io::Bytes<R> (struct field type rewritten), `reader.bytes()` dropped from IoRead::new",
        ],
        trusted=STD_TRUST,
    ),
    "C08": dict(
        units=["parse"],
        level="proof",
        min_obligations=25,
        replay_family="c08",
        bounded=[dict(family="c08", what="documented reading of each option-governed token in 4 syntactic positions, compared with a table written from the documentation", bound="54 (token, option set) pairs x 4 positions x 3 entry points; a reference classifier written from the option documentation over ALL 1536 option sets x 35 tokens x 3 positions x 3 APIs (value, datum, stream); 6 non-numeric digit-initial tokens with the option off; each of the four quote shorthands 300 times in one list and 300 times from one parser (value and datum API, 2 option sets)")],
        explanation="parse_token - the only place parser options are consulted - is extracted from /repo and verified against a declarative classifier written from "
                    "the property statement, one clause per option: letter-initial words (postfix keywords, nil under NilSymbol, t under TSymbol, else symbol, with the "
                    "token text = the bytes up to the first symbol terminator, decoded as UTF-8), `:name` under ColonPrefix, `#:name` under Octothorpe (error when off), "
                    "`#%name` under the Racket option (error when off), `(` / `[` under Brackets, `?c` under CharSyntax (symbol when R6RS), digit-initial tokens under "
                    "leading_digit_symbols, the quote shorthands ' ` , ,@ for every option set; each clause also pins how much input the token consumes. The Options "
                    "builder/query API is verified field by field (each with_* sets exactly its own field: `r == Options { f: v, ..self }`; keyword flags by bit-vector "
                    "reasoning), Options::new/default/elisp equal their documented field values. Non-interference follows where a clause pins the whole result: the clause "
                    "mentions only the option it names. The clauses are carried to next_value AND next_datum by `leaf_word` (an atom token yields the value of the "
                    "option-determined token, in both APIs), together with tk_string (both string syntaxes, via sp_r6rs_str / sp_elisp_str), tk_char (`#\\` literals via "
                    "sp_r6rs_char, plain Emacs `?c`), tk_radix / tk_decimal (sp_radix_literal / sp_num_literal); Parser::new / from_* pin Options::default(). The "
                    "`always` of the quote-shorthand clause also rests on next_value / next_datum leaving options and nesting budget as they found them "
                    "(same_cfg on every exit: counted for C08 too).",
        assumptions=[
            "String::ends_with(':'), String::pop, String == &str are std: assumed specs over the char sequence (vx_ends_with_colon, vx_string_pop, vx_string_eq)",
            "char::is_alphabetic is an uninterpreted predicate",
            "Options::with_keyword_syntaxes is verified at the instantiation `a slice of KeywordSyntax`, its iterator fold rewritten as the loop it denotes with the fold's initial value taken from the source text",
            "`a token is read as a number only if the whole token is a numeric literal`: proved for the leading-digit-symbols path (after fix 8ffb444); with the option "
            "off the clause is violated on the real code and recorded as an open known finding (D7b), reported on every run",
        ],
        not_covered=[
                     "expansion of quote shorthands into two-element lists is decided structurally by C10's Datum::quotation clause and Value::list's contract, not re-stated here"],
        trusted=STD_TRUST,
    ),
    "C10": dict(
        units=["parse"],
        level="proof",
        min_obligations=40,
        replay_family="c10",
        bounded=[dict(family="c10", what="next_value loop vs next_datum / value_iter / datum_iter / Iterator for Parser: same items, same error, same end; Ref walkers vs Value walkers",
                      bound="56 texts (proper, dotted, bracketed, quoted, nested, truncated and malformed lists/vectors) x 5 option sets x 3 sources x 4 iteration styles + 5 deep quotation/list nestings around the 128-level limit")],
        explanation="PROVED (Verus, unbounded): datum.rs is extracted from /repo: the span tree of every Datum the parser returns mirrors the value's shape "
                    "(shape_ok: established by Datum::primitive/vec/cons/quotation, by parse_vector_meta, and by parse_list_meta through its two &mut cursors "
                    "with a prophecy invariant; returned by next_datum/expect_datum); under that invariant datum::ListIter::next yields exactly what the "
                    "documented list-iterator protocol (the same abstract machine li_step/li_yield that cons::ListIter is verified against in C15) yields on the "
                    "value, its expect(\"badly shaped...\") and Ref::as_pair's unreachable!() are dead, Ref::as_pair/list_iter/peek/value, Datum::value and "
                    "Value::from(datum) return the value-side components, Ref::as_ref / Ref::deref return the referenced value and Datum::from(Ref) copies value AND span tree (shape kept). next_datum carries the same progress / end-of-input / depth / read-error clauses as next_value. "
                    "NOT PROVED: that next_datum returns the same VALUE as next_value (two unary contracts cannot relate the duplicated token-to-value code without a "
                    "full functional specification of the reader) - that part is a BOUNDED stand-in run on every check (coverage.bounded), never counted as proved.",
        assumptions=[
            "derived Clone of [SpanInfo; 2] and of SpanInfo returns an equal value (vx_clone_meta, impl Clone for SpanInfo: external_body; the derive's presence on SpanInfo / Datum is checked on every run, //@assume-derive)",
            "Ref::vector_iter / Datum::vector_iter / VectorIter (iter::Zip of two slice iterators: an adapter Verus rejects) are not under contract",
            "impl Iterator for datum::ListIter, impl AsRef<Value> / Deref for Ref and impl From<Ref> for Datum are verified as inherent methods (bodies are the repository's; trait headers restated)",
        ],
        not_covered=["value equality of next_datum and next_value results (bounded stand-in only)", "Ref::vector_iter, VectorIter::next"],
        trusted=STD_TRUST,
    ),
    "C11": dict(
        units=["parse"],
        level="proof",
        min_obligations=25,
        replay_family="c11",
        bounded=[dict(family="c11", what="every sub-datum reachable through list_iter / vector_iter: inside its parent, after its predecessor, covered text re-parses to its value, "
                                         "quote heads cover the shorthand, identical spans from str / slice / reader",
                      bound="33 texts (multi-line, non-ASCII, nested, dotted, quoted) x 2 option sets x 3 sources + reader failing at 4 offsets")],
        explanation="PROVED (Verus, unbounded): (positions) Read::position of all three sources (SliceRead::position_of_index loop, StrRead delegation, IoRead over "
                    "LineColIterator's counters and the position remembered in front of a peeked byte) equals pos_line/pos_col of the bytes CONSUMED so far, for every "
                    "input and every peek/next/discard history - so the three sources report identical positions; (own span) next_datum/expect_datum return a datum whose "
                    "span is [pos(input[..a]), pos(input[..b])) with a = offset of the first byte after leading trivia, b = offset reached on return, a < b <= len "
                    "(inside the input, non-empty, starts at the datum not at the whitespace); (tree) nest_ok(value, info) for every datum next_datum returns: every "
                    "vector element and every element along a list's spine (incl. a dotted tail, and a tail that is itself a list) is recursively well nested, has a "
                    "non-empty span, lies inside its parent's span and starts at or after the end of its predecessor (no overlap) - positions ordered lexicographically, "
                    "derived from offset order by lemma_pos_mono; proved through parse_vector_meta's loop (ghost offsets) and parse_list_meta's two &mut cursors (prophecy "
                    "invariants on spine_nest / spine_last_end), lemma_spine_within turns the ordered chain into containment of EVERY element; (quotes) Datum::quotation: "
                    "head span = the span handed in (start..end of the shorthand token), quoted datum after it, whole form start-of-shorthand..end-of-quoted-datum. "
                    "NOT PROVED: that the covered text re-parses to the sub-datum (needs a functional specification of the reader): BOUNDED stand-in on every check.",
        assumptions=["the stream model ByteIter (see C06) for IoRead; fewer than usize::MAX bytes"],
        not_covered=["re-parse of the covered text to the sub-datum's value (bounded stand-in only)"],
        trusted=STD_TRUST,
    ),
    "C12": dict(
        units=["parse"],
        level="proof",
        min_obligations=10,
        replay_family="c12",
        bounded=[dict(family="c12", what="concatenation of printed values of every kind with every trivia string parses back to exactly those values (value_iter and datum_iter); "
                                         "the four iteration styles agree and terminate on malformed inputs",
                      bound="15 values pairwise (1/3 sample) x 9 trivia strings x 4 placements + 22 malformed inputs")],
        explanation="parse_whitespace is verified equal to the declarative trivia skipper skip_trivia (space, tab, CR, LF, FF and ;-comments incl. a "
                    "final comment without newline); the symbol scanners are verified against sym_run/sym_term, where sym_term is REQUIRED by the spec to "
                    "contain every trivia byte and every delimiter the printer can emit after a token, so inserting trivia at a token boundary cannot "
                    "change where a symbol ends; the iteration entry points (next_value loop, value_iter, datum_iter, Iterator for Parser) carry "
                    "progress/termination clauses.",
        assumptions=["the concatenation clause for structured values relies on the C01 round-trip lemmas (claimed there)"],
        trusted=STD_TRUST,
    ),
    "C03": dict(
        units=["parse"],
        level="proof",
        min_obligations=60,
        replay_family="c03",
        kani=[dict(gen="kani/gen_f64.py", crate="kani_f64", harness="f64_from_parts_safe",
                   claim="Parser::f64_from_parts (fast-float build), extracted from /repo with the POW10 table: for ALL (sign, significand: u64, exponent: i32) no panic "
                         "(table index in bounds, exponent arithmetic cannot overflow), the scaling loop ends within 7 rounds (unwinding assertion on: complete, the value "
                         "reaches 0.0 after two divisions by 1e308), and an Ok result is never infinite or NaN")],
        bounded=[dict(family="c03", what="no panic / no stack overflow / terminates on pathological inputs for the parts not modelled (stack size, f64_from_parts body): every byte string up to 2 bytes, token-alphabet strings, 10^5 nested openers of each kind", bound="21962 inputs x 2 option sets x value and datum API")],
        explanation="Every function of parse/read.rs (decoders, slice/str scanners) and parse/mod.rs (lexer, number scanner, next_value/expect_value/"
                    "parse_list/parse_vector/parse_byte_list/end_seq) is extracted from /repo and verified for: no arithmetic overflow, no out-of-bounds index or "
                    "slice, every unwrap/expect on Some/Ok, every unreachable!() dead, callee preconditions, termination of every loop (decreases on the "
                    "unread input), the parser invariant 1 <= remaining_depth <= 128 restored on EVERY exit, and a recursion measure (remaining_depth, rank) "
                    "that must strictly decrease at every recursive call - so native recursion depth is bounded by the depth budget, for all bytes, all "
                    "option sets and any source satisfying the Read contract.",
        assumptions=[
                     "allocation failure and stack size are not modelled (Vec::push assumed to succeed)"],
        not_covered=["f64_from_parts / f64_from_radix_parts bodies (floating-point arithmetic crashes the Verus front end: assumed; the c03 stand-in covers the scaling-table edges)", "impl FromStr for Value (one-line delegation)"],
        trusted=STD_TRUST,
    ),
}


ALL = ["C%02d" % i for i in range(1, 21)]
_NA_REASONS = {
    "C04": "the round trip relates two programs that are not in the repository - the serde_derive-generated Serialize and Deserialize impls of an arbitrary Rust type - "
           "through this crate; a contract on serde-lexpr's functions can pin the shape each serializer method builds (claimed as C14) and what each deserializer method "
           "accepts (C14/C18), but `deserialize(serialize(x)) == x` is a statement about the derived code's call sequences, which no contract in /repo can carry; the text "
           "half additionally needs the print/parse round trip (C01, not claimed)",
    "C01": "needs the composition theorem parse(print(v)) == v over a functional specification of the whole reader (sp_value); the per-token and per-emitter contracts exist "
           "(units print, parse) but the composition was not built - not claimed rather than claimed on partial evidence (DESIGN 9.3)",
    "C02": "as C01, for every consistent printer/parser option pairing; additionally blocked by the delimiter-set defects D5/D6 seen while reading (DESIGN 7)",
    "C13": "as C01 in the other direction (print(parse(t)) reads back): needs the functional reader specification",
    "C17": "the UTF-8 well-formedness argument needs vstd's UTF-8 theory on concatenations of emitted pieces and on slices cut at scanner positions; the unsafe "
           "from_utf8_unchecked sites are isolated behind assumed helpers (vx_from_utf8_unchecked) and listed in the trusted base of C03/C12, but the property itself is not decided",
    "C09": "sexp! is a compile-time program over rustc token trees whose output is Rust source; neither Verus nor Kani has a semantics for "
           "rustc's lexer/quote!, so no contract within reach can state 'the value this token stream evaluates to' (DESIGN §6)",
    "C16": "stack consumption is not a state either verifier exposes; the mechanism that breaks it (derived Clone/PartialEq/drop glue) has no "
           "source text to annotate (DESIGN §6)",
}
NOT_APPLICABLE = [dict(property_id=p, reason=_NA_REASONS.get(p, "contracts specified in DESIGN.md but not yet discharged by the machinery; not claimed"))
                  for p in ALL if p not in PROPS]


def load_findings():
    p = os.path.join(VERIF, "known_findings.json")
    if not os.path.exists(p):
        return []
    return json.load(open(p)).get("open", [])


def match_finding(findings, prop, oid):
    for f in findings:
        if f.get("property") == prop and f.get("obligation") == oid:
            return f
    return None
