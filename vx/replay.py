"""Replay files: written only after the verifier refuted an obligation.

replays/<PROP>/<obligation>.json = {property, obligation, source, verifier_output, family, witness?, observed?}
The witness (if any) is found by running a small family of concrete inputs through the REAL crates
(/verif/replay, path-dependencies on the repository) until one contradicts the refuted clause.
"""
import hashlib
import json
import os
import re
import subprocess
import sys

VERIF = os.path.dirname(os.path.dirname(os.path.abspath(__file__)))
BUILD = os.path.join(VERIF, ".build")


def _log(*a):
    print(*a, file=sys.stderr, flush=True)


def build_replay(repo, features=("fast-float-parsing",)):
    """Build vx-replay against the crates in `repo`; returns path of the binary or None."""
    tag = hashlib.sha1((repo + "|" + ",".join(features)).encode()).hexdigest()[:10]
    d = os.path.join(BUILD, "replay-" + tag)
    os.makedirs(d, exist_ok=True)
    tmpl = open(os.path.join(VERIF, "replay", "Cargo.toml.in")).read()
    toml = tmpl.replace("@REPO@", repo).replace("@VERIF@", VERIF).replace(
        "@FEATURES@", ", ".join('"%s"' % f for f in features))
    p = os.path.join(d, "Cargo.toml")
    if not os.path.exists(p) or open(p).read() != toml:
        open(p, "w").write(toml)
    lock = os.path.join(repo, "Cargo.lock")
    if os.path.exists(lock) and not os.path.exists(os.path.join(d, "Cargo.lock")):
        # start from the repository's lock file so that versions resolve offline
        open(os.path.join(d, "Cargo.lock"), "w").write(open(lock).read())
    env = dict(os.environ, CARGO_NET_OFFLINE="true", CARGO_TARGET_DIR=os.path.join(d, "target"))
    env.pop("RUSTUP_TOOLCHAIN", None)
    cmd = ["cargo", "build", "--release", "--offline", "-q"]
    if "fast-float-parsing" not in features:
        # serde-lexpr would switch lexpr's default features back on (feature unification): leave the serde families out of this build
        cmd.append("--no-default-features")
    r = subprocess.run(cmd, cwd=d, env=env, capture_output=True, text=True)
    if r.returncode != 0:
        _log("replay build failed:\n" + r.stderr[-3000:])
        return None
    return os.path.join(d, "target", "release", "vx-replay")


def family_for(prop, oid):
    from . import registry
    P = registry.PROPS.get(prop, {})
    fams = P.get("replay_families")
    if fams:
        for pat, fam in fams:
            if re.search(pat, oid):
                return fam
    return P.get("replay_family")


def make_replay(prop, oid, a, repo, unit_run):
    """Returns (path, found_witness: bool)."""
    d = os.path.join(VERIF, "replays", prop)
    os.makedirs(d, exist_ok=True)
    name = re.sub(r"[^A-Za-z0-9_.-]+", "_", oid)[:150]
    path = os.path.join(d, name + ".json")
    rendered = ""
    if unit_run is not None:
        for dg in unit_run["res"]["diagnostics"]:
            if dg["message"] == a["message"] and any(s["line"] == a["detail"].get("gen_line") for s in dg["spans"]):
                rendered = dg["rendered"]
                break
    rec = dict(property=prop, obligation=oid, function=a.get("fn"), verifier_message=a["message"],
               source=a["detail"].get("src"), clause_or_site=a["detail"].get("text"), verifier_output=rendered,
               checker="verus", repo=repo)
    if a["detail"].get("kani"):
        rec["checker"] = "kani/cbmc"
        rec["verifier_output"] = a["detail"]["kani"]
    fam = family_for(prop, oid)
    found = False
    if fam:
        for feats in (("fast-float-parsing",), ()):
            if not feats and not registry_needs_nofast(prop):
                continue
            exe = build_replay(repo, feats)
            if exe is None:
                rec["replay_note"] = "replay binary failed to build against the current tree"
                break
            try:
                r = subprocess.run([exe, "find", fam, oid], capture_output=True, text=True, timeout=600)
            except subprocess.TimeoutExpired:
                rec["replay_note"] = "witness search timed out"
                continue
            rec["family"] = fam
            lines = r.stdout.strip().split("\n")
            if r.returncode == 1 and lines and lines[0].startswith("FOUND "):
                rec["witness"] = lines[0][6:]
                rec["observed"] = "\n".join(lines[1:])
                rec["features"] = list(feats)
                found = True
                break
            rec["replay_note"] = "no failing input in family %s (%s)" % (fam, lines[-1] if lines else "")
    else:
        rec["replay_note"] = "no witness family registered for this obligation"
    if not found:
        rec["no_failing_input_found"] = True
    with open(path, "w") as f:
        json.dump(rec, f, indent=1)
    return (path, found)


def registry_needs_nofast(prop):
    from . import registry
    return bool(registry.PROPS.get(prop, {}).get("both_float_cfgs"))


def run_replay_file(path, repo):
    rec = json.load(open(path))
    print("replay of obligation %s (property %s)" % (rec["obligation"], rec["property"]))
    if rec.get("verifier_output"):
        print(rec["verifier_output"])
    if not rec.get("witness"):
        print("no concrete witness recorded (no-failing-input-found); re-run the check to re-verify the obligation")
        return 0
    exe = build_replay(repo, tuple(rec.get("features", ["fast-float-parsing"])))
    if exe is None:
        return 2
    r = subprocess.run([exe, "run", rec["family"], rec["witness"]], capture_output=True, text=True)
    print(r.stdout)
    return 1 if r.returncode == 1 else 0


def fallback_search(prop, reason, repo):
    """Verifier undecided: search the property's witness family on the real code.  Returns (replay path, obligation) or None."""
    from . import registry
    P = registry.PROPS.get(prop, {})
    fams = [f for (_, f) in P.get("replay_families", [])] or ([P["replay_family"]] if P.get("replay_family") else [])
    if not fams:
        return None
    exe = build_replay(repo, ("fast-float-parsing",))
    if exe is None:
        return None
    for fam in fams:
        try:
            r = subprocess.run([exe, "find", fam, "undecided"] + _skip_args(prop), capture_output=True, text=True, timeout=900)
        except subprocess.TimeoutExpired:
            continue
        lines = [l for l in r.stdout.strip().split("\n") if not l.startswith("KNOWN ")]
        if r.returncode == 1 and lines and lines[0].startswith("FOUND "):
            d = os.path.join(VERIF, "replays", prop)
            os.makedirs(d, exist_ok=True)
            oid = "%s/undecided-by-verifier" % prop
            path = os.path.join(d, "undecided_bounded_witness.json")
            rec = dict(property=prop, obligation=oid, checker="verus (undecided) + bounded witness family on the real code",
                       verifier_output=reason, family=fam, witness=lines[0][6:], observed="\n".join(lines[1:]),
                       features=["fast-float-parsing"], bounded=True, repo=repo,
                       note="the verifier could not decide the property's obligations on this tree; this concrete input contradicts the property on the real code")
            with open(path, "w") as f:
                json.dump(rec, f, indent=1)
            return (path, oid)
    return None


def standin_search(prop, repo, tier="quick", seed=0):
    """Bounded stand-ins registered for parts of a property no contract decides (registry key `bounded`): run each family on the
    real code on EVERY run.  Returns (results, found) - results describe what was explored, found is (replay path, obligation) or None."""
    from . import registry
    P = registry.PROPS.get(prop, {})
    results = []
    found = None
    fams = P.get("bounded", [])
    if not fams:
        return results, None
    cfgs = [("fast-float-parsing",)] + ([()] if registry_needs_nofast(prop) else [])
    mode = ("standin quick:%d" if tier != "thorough" else "standin thorough:%d") % (seed + 1)
    for feats in cfgs:
        exe = build_replay(repo, feats)
        if exe is None:
            return [dict(family=b["family"], status="replay crate did not build; stand-in not run") for b in fams], None
        for b in fams:
            fam = b["family"]
            if not feats:
                b = dict(b, build="lexpr built WITHOUT its default feature fast-float-parsing (std float parsing path)")
            try:
                r = subprocess.run([exe, "find", fam, mode] + _skip_args(prop), capture_output=True, text=True, timeout=1500)
            except subprocess.TimeoutExpired:
                results.append(dict(b, status="timeout"))
                continue
            known_seen = [l[6:] for l in r.stdout.strip().split("\n") if l.startswith("KNOWN ")]
            lines = [l for l in r.stdout.strip().split("\n") if not l.startswith("KNOWN ")]
            if known_seen:
                b = dict(b, known_finding_witnesses=known_seen)
            if r.returncode == 1 and lines and lines[0].startswith("FOUND "):
                d = os.path.join(VERIF, "replays", prop)
                os.makedirs(d, exist_ok=True)
                oid = "%s/bounded-standin/%s" % (prop, fam)
                path = os.path.join(d, "bounded_standin_%s.json" % fam)
                rec = dict(property=prop, obligation=oid, checker="bounded stand-in (witness family on the real code; not a proof)",
                           family=fam, witness=lines[0][6:], observed="\n".join(lines[1:]), features=list(feats), bounded=True, repo=repo,
                           note="this concrete input contradicts the property on the real code")
                with open(path, "w") as f:
                    json.dump(rec, f, indent=1)
                results.append(dict(b, status="failing input found", witness=lines[0][6:]))
                if found is None:
                    found = (path, oid)
            elif r.returncode == 0 and lines and lines[-1].startswith("NOTFOUND"):
                results.append(dict(b, status="no failing input", cases=int(lines[-1].split()[1]), bound_note="the family grew with every round of seeded changes: `cases` is the number of cases actually run now; the breakdown in `bound` is the family's original composition", mode=mode + (" (thorough tier: the families c03 c06 c10 c11 c12 c19 add 4000-12000 seeded random token-alphabet texts - twenty times the nominal 200-600 -, a third of them with one byte deleted/replaced/truncated; c05 adds 320 x 400 random decimal literals)" if tier == "thorough" else " (quick tier: a quarter of the nominal 200-600 seeded random texts; c05: 4 x 400 random decimal literals)")))
            else:
                results.append(dict(b, status="stand-in did not run: rc=%s %s" % (r.returncode, (r.stderr or r.stdout)[-200:])))
    return results, found


def _skip_args(prop):
    """witness-message fragments of the open known findings of this property: the witness search must look past them"""
    from . import registry
    out = []
    for f in registry.load_findings():
        if f.get("property") == prop:
            for frag in f.get("witness_messages", []):
                out += ["--skip", frag]
    return out
