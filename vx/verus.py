"""Run Verus on a generated unit and map diagnostics back to named obligations."""
import json
import os
import re
import subprocess
import time

VERUS = os.environ.get("VX_VERUS", "verus")

# message -> (class, is_refutation)
#   refuted : the solver produced a counter-model for this obligation (candidate violation)
#   undecided: resource limits etc. (exit 2)
#   infra   : the file did not even type-check / unsupported construct (exit 2)
REFUTED_PATTERNS = [
    (r"^postcondition not satisfied", "ensures"),
    (r"^precondition not satisfied", "call-requires"),
    (r"^invariant not satisfied", "invariant"),
    (r"^loop invariant not", "invariant"),
    (r"^assertion failed", "assert"),
    (r"^possible arithmetic underflow/overflow", "arith"),
    (r"^possible division by zero", "arith"),
    (r"^possible bit shift underflow/overflow", "arith"),
    (r"^decreases not satisfied", "decreases"),
    (r"^could not prove termination", "decreases"),
    (r"^recursive call.*decreases", "decreases"),
    (r"^unreachable", "unreachable"),
    (r"^possible (index|slice)", "bounds"),
    (r"^precondition not met", "bounds"),
    (r"^constructed value may fail to meet its declared type invariant", "type-invariant"),
    (r"^cannot show .* (recommend|invariant)", "invariant"),
    (r"^failed to prove", "assert"),
    (r"^expression simplifies to false", "assert"),
    (r"^proof block", "assert"),
    (r"^assert_by", "assert"),
]
UNDECIDED_PATTERNS = [r"[Rr]esource limit", r"rlimit", r"timed? ?out", r"could not be verified .*(limit|time)"]


def classify(msg):
    for p in UNDECIDED_PATTERNS:
        if re.search(p, msg):
            return ("undecided", None)
    for p, k in REFUTED_PATTERNS:
        if re.search(p, msg):
            return ("refuted", k)
    return ("infra", None)


def run(gen_path, rlimit=None, seed=None, timeout=420, extra=None, threads=None):
    cmd = [VERUS, os.path.basename(gen_path), "--output-json", "--time-expanded", "--error-format=json",
           "--multiple-errors", "50"]
    if rlimit:
        cmd += ["--rlimit", str(rlimit)]
    if seed is not None:
        cmd += ["--smt-option", "smt.random_seed=%d" % (seed % 1000000)]
    if threads:
        cmd += ["--num-threads", str(threads)]
    if extra:
        cmd += extra
    t0 = time.time()
    try:
        p = subprocess.run(cmd, cwd=os.path.dirname(gen_path), capture_output=True, text=True, timeout=timeout)
        out, err, rc = p.stdout, p.stderr, p.returncode
    except subprocess.TimeoutExpired as e:
        out = e.stdout.decode() if isinstance(e.stdout, bytes) else (e.stdout or "")
        err = (e.stderr.decode() if isinstance(e.stderr, bytes) else (e.stderr or "")) + "\nTIMEOUT"
        rc = 124
    wall = time.time() - t0
    res = dict(cmd=" ".join(cmd), rc=rc, wall_s=wall, diagnostics=[], raw_err_tail=err[-4000:])
    try:
        j = json.loads(out[out.index("{"):]) if "{" in out else {}
    except ValueError:
        j = {}
    res["summary"] = j.get("verification-results", {})
    funcs = {}
    smt_ms = 0
    for mod in j.get("times-ms", {}).get("smt", {}).get("smt-run-module-times", []):
        smt_ms += mod.get("time", 0)
        for f in mod.get("function-breakdown", []):
            funcs[f["function"]] = dict(ms=f.get("time-micros", 0) / 1000.0, rlimit=f.get("rlimit"), ok=f.get("success"),
                                        mode=f.get("mode:"))
    res["functions"] = funcs
    res["smt_ms"] = smt_ms
    res["total_ms"] = j.get("times-ms", {}).get("total")
    for line in err.split("\n"):
        line = line.strip()
        if not line.startswith("{"):
            continue
        try:
            d = json.loads(line)
        except ValueError:
            continue
        if d.get("level") not in ("error",):
            continue
        if d.get("message", "").startswith("aborting due to"):
            continue
        def _site(s):
            # a span inside a macro of std / vstd (unreachable!(), vec![], assert!..): report the place where the macro is used
            cur = s
            while cur.get("expansion") and cur["expansion"].get("span"):
                cur = cur["expansion"]["span"]
            return cur
        spans = []
        for s0 in d.get("spans", []):
            s = _site(s0)
            spans.append(dict(file=s["file_name"], line=s["line_start"], col=s["column_start"], label=s0.get("label"), primary=s0["is_primary"],
                              text=(s.get("text") or [{}])[0].get("text", "").strip() if s.get("text") else "",
                              macro=(os.path.basename(s0["file_name"]) if s is not s0 else None)))
        res["diagnostics"].append(dict(message=d["message"], spans=spans, rendered=d.get("rendered", ""),
                                       children=[c.get("message") for c in d.get("children", [])]))
    return res


def attribute(diag, g, gen_file):
    """Map one diagnostic to (fn id or None, obligation name, props, detail)."""
    base = os.path.basename(gen_file)
    cls, kind = classify(diag["message"])
    ours = [s for s in diag["spans"] if os.path.basename(s["file"]) == base]
    prim = [s for s in ours if s["primary"]]
    other = [s for s in ours if not s["primary"]]

    def info(line):
        if 1 <= line <= len(g.map):
            return g.map[line - 1]
        return {}

    fn = None
    props = []
    name = None
    detail = {}
    # 1. a span that points at a contract clause of ours gives the clause name
    clause_span = None
    for s in prim + other:
        i = info(s["line"])
        if i.get("ord"):
            clause_span = (s, i)
            break
    # 2. the function in which the failure happened: prefer a body/sig span
    site = None
    for s in prim + other:
        i = info(s["line"])
        if i.get("fn") and i.get("kind") in ("body", "hint", "sig"):
            site = (s, i)
            break
    if site is None and clause_span is not None:
        site = clause_span
    if site is None:
        for s in prim + other:
            i = info(s["line"])
            if i:
                site = (s, i)
                break
    if site is not None:
        s, i = site
        fn = i.get("fn")
        props = list(i.get("props") or [])
        detail["gen_line"] = s["line"]
        detail["text"] = s["text"]
        if i.get("srcline"):
            detail["src"] = "%s:%d" % (i.get("src"), i["srcline"])
        if i.get("tline"):
            detail["template_line"] = i["tline"]
    if kind == "ensures":
        if clause_span is not None and clause_span[1].get("fn") == fn:
            name = clause_span[1]["ord"]
            props = list(clause_span[1].get("props") or props)
        else:
            # postcondition inherited from a trait declaration (ours, restated in the template, or vstd's)
            name = "ensures(trait-spec)"
            for s in prim + other:
                i = info(s["line"])
                if i.get("linetag"):
                    props = list(i.get("props") or [])
                    name = "ensures(trait-spec:%s)" % re.sub(r"\s+", " ", s["text"])[:50]
                    break
    elif kind == "call-requires" and re.search(r"\b(unreachable|panic|unimplemented|todo)!", detail.get("text", "")) and clause_span is None:
        # the `requires false` of a panicking macro: the arm is reachable
        kind = "unreachable"
        name = "unreachable[%s]" % re.sub(r"\s+", " ", detail.get("text", ""))[:60]
        if fn in g.fns and g.fns[fn].get("safety"):
            props = list(g.fns[fn]["safety"])
    elif kind == "call-requires":
        callee = None
        if clause_span is not None:
            callee = "%s/%s" % (clause_span[1].get("fn"), clause_span[1]["ord"])
        else:
            ext = [s for s in diag["spans"] if os.path.basename(s["file"]) != base]
            callee = ("std:" + ext[0]["text"]) if ext else "callee"
            lab = [s for s in diag["spans"] if s.get("label") and "failed precondition" in s["label"]]
            if lab:
                callee = "pre:" + re.sub(r"\s+", " ", lab[0]["text"])[:80]
        name = "call-requires[%s]" % callee
        if fn in g.fns and g.fns[fn].get("safety") and (callee.startswith("std:") or callee.startswith("pre:") or callee == "callee"):
            props = list(g.fns[fn]["safety"])
        # precondition failures at a call site belong to the *caller*
        for s in prim:
            i = info(s["line"])
            if i.get("fn"):
                fn = i["fn"]
                props = list(i.get("props") or [])
                detail["gen_line"] = s["line"]
                detail["text"] = s["text"]
                if i.get("srcline"):
                    detail["src"] = "%s:%d" % (i.get("src"), i["srcline"])
        # ... and to every property whose proof uses the callee's guarantees: those hold only if its precondition holds at each call
        if clause_span is not None:
            for x in (clause_span[1].get("props") or []):
                if x not in props:
                    props.append(x)
    elif kind == "invariant":
        name = clause_span[1]["ord"] if clause_span is not None else "invariant"
        if clause_span is not None:
            props = list(clause_span[1].get("props") or props)
        if "before" in diag["message"] or any("before" in (s.get("label") or "") for s in diag["spans"]):
            name += "(entry)"
    elif kind is not None:
        txt = re.sub(r"\s+", " ", detail.get("text", ""))[:60]
        name = "%s[%s]" % (kind, txt)
        if kind in ("arith", "bounds", "unreachable", "decreases") and fn in g.fns and g.fns[fn].get("safety"):
            props = list(g.fns[fn]["safety"])
    else:
        name = cls
    if fn is None and site is not None and site[1].get("kind") == "spec":
        # failure inside template text (lemma / proof fn): name it by the enclosing proof fn
        ln = site[0]["line"]
        k = ln
        pf = None
        while k >= 1:
            m = re.search(r"\b(?:proof\s+fn|fn)\s+([A-Za-z0-9_]+)", g.lines[k - 1])
            if m:
                pf = m.group(1)
                break
            k -= 1
        fn = "lemma:" + (pf or "line%d" % ln)
    if cls == "refuted" and kind == "assert" and site is not None and site[1].get("kind") == "hint" and not site[1].get("semantic"):
        # an assertion of OURS (a proof hint injected into an extracted function) failed: the hint no longer fits the code.  That
        # is not a refuted contract clause - the property is undecided by the verifier (the bounded witness search then decides
        # between a replayable violation and exit 2).  Verus assumes a failed assertion afterwards, so clauses that depend on it
        # are not reported separately.
        cls = "undecided"
        diag = dict(diag, message="proof hint no longer holds (%s): %s" % (re.sub(r"\s+", " ", detail.get("text", ""))[:80], diag["message"]))
    return dict(cls=cls, kind=kind, fn=fn, name=name, props=props, detail=detail, message=diag["message"])
