//! C19 witness family: error locations in bounds, io::Error kinds, truncation reported as EOF - on the real parser.
use crate::Family;
use lexpr::parse::error::Category;
use lexpr::parse::Options;
use std::io;

pub fn family() -> Family {
    Family { name: "c19", cases, check }
}

fn valid() -> Vec<&'static str> {
    vec!["(a b)", "#(1 2)", "#u8(1 2)", "#vu8(1)", "\"ab\\x41;c\"", "\"a\\n\"", "#\\space", "#\\x41", "#\\a", "#nil", "#t", "#f", "1.5", "1e5", "1.5e-3", "-12", "+1.0", "#xff", "#b101", "#o17", "#d10",
         "#:key", "'a", "`(a ,b ,@c)", "(a . b)", "(a (b (c)))", "\"\u{3bb}\"", "\u{3bb}x", "(\u{3bb})", "#\\\u{3bb}", "[a b]", "(1 . (2))", "a\u{3bb}", "(a ;c\n b)", "#(#(1) \"s\")"]
}
fn garbage() -> Vec<&'static str> {
    vec![")", "(a . )", "#z", "1x", "(a]", "\"\\q\"", "#\\bogus", "(a\n b\n  #z", "\n\n)", "a\n)", "#u8(300)", "#u8(a)", "(a . b c)", "\u{3bb}\n )", "\"\n\n\\q", "#xfg", "1e+", "(\n\"abc", "a\r\n)\r\n", "(a\r b\r c\r #z", "\"x\ry\rz\" )", "a\r\nb\r\nc\r\n(d\r\n",
         "(\n  1e999)", "\n\n 3.5e+400", "(a\n 1e999 b)", "\n 99999999999999999999999999e999", "(\n  #e1.5x)", "\n\n  #xfz", "(\n\n   1+x)", "\n\n   1x", "\n\n  -1.5.6", "\n\n\n     -1e999", "(\n\n#u8(1\n 1e999))", "'\n\n  1e999", "\n\n   #\\bogusname", "\n\n     \"abc\\q\"", "\n\n    #:", "\n\n   ?\\^",
         "#\\foobar\n", "(1 2\n 1e999\n)", "#\\x110000\n", "(a\n  .\n)", "\n #z\n", "(a\n  #\\bogus\n b)", "1e999\n", "x\n  1e999\n\n", "(\n\"a\\q\"\n)", "#u8(1\n 300\n)", "(a .\n)\n", "#\\spac\n\n"]
}
fn opts(i: usize) -> Options { if i == 0 { Options::default() } else { Options::elisp() } }

fn cases(ob: &str) -> Vec<String> {
    let mut out = vec![];
    if let Some(seed) = crate::gen::thorough_seed(ob) { for t in crate::gen::texts(seed ^ 19, crate::gen::scale(ob, 400), true) { for o in 0..2 { out.push(format!("locx:{}:{}", crate::hex(t.as_bytes()), o)); } } }
    for i in 0..valid().len() { out.push(format!("prefix:{}:0", i)); }
    for t in ["(a b)", "\"ab\"", "?a", "\"\\u03bb\"", "[1 2]", "(a . b)", "1.5e3"] { out.push(format!("eprefix:{}", crate::hex(t.as_bytes()))); }
    for i in 0..garbage().len() { for o in 0..2 { out.push(format!("loc:{}:{}", i, o)); } }
    for k in 0..4 { out.push(format!("ioerr:{}", k)); }
    out
}

fn loc_ok(text: &[u8], e: &lexpr::parse::Error) -> Option<String> {
    let kind = io::Error::from(clone_err(text, e)).kind();
    let want = match e.classify() { Category::Syntax => io::ErrorKind::InvalidData, Category::Eof => io::ErrorKind::UnexpectedEof, Category::Io => return None };
    if kind != want { return Some(format!("io::Error kind {:?}, documented {:?}", kind, want)); }
    let l = match e.location() { Some(l) => l, None => return Some("syntax/EOF error without a location".into()) };
    let lines: Vec<&[u8]> = text.split(|&b| b == b'\n').collect();
    if l.line() < 1 || l.line() > lines.len() + 1 { return Some(format!("line {} outside 1..={}", l.line(), lines.len() + 1)); }
    let len = lines.get(l.line() - 1).map(|x| x.len()).unwrap_or(0);
    if l.column() > len + 1 { return Some(format!("column {} exceeds the length of line {} plus one ({})", l.column(), l.line(), len + 1)); }
    None
}
// parse::Error is not Clone: re-run the parse to obtain a second copy of the same error
fn clone_err(text: &[u8], _e: &lexpr::parse::Error) -> lexpr::parse::Error {
    LAST_OPTS.with(|o| lexpr::from_slice_custom(text, o.borrow().clone()).unwrap_err())
}
thread_local! { static LAST_OPTS: std::cell::RefCell<Options> = std::cell::RefCell::new(Options::default()); }

fn check(case: &str) -> Option<String> {
    let p: Vec<&str> = case.split(':').collect();
    match p[0] {
        "prefix" | "eprefix" => {
            let (text, o) = if p[0] == "prefix" { (valid().get(p.get(1)?.parse::<usize>().ok()?)?.as_bytes().to_vec(), opts(0)) } else { (crate::unhex(p.get(1)?), opts(1)) };
            LAST_OPTS.with(|x| *x.borrow_mut() = o.clone());
            if lexpr::from_slice_custom(&text, o.clone()).is_err() { return Some(format!("corpus text {:?} does not parse", String::from_utf8_lossy(&text))); }
            for k in 0..text.len() {
                let pre = &text[..k];
                if let Err(e) = lexpr::from_slice_custom(pre, o.clone()) {
                    if e.classify() != Category::Eof {
                        return Some(format!("{:?} is a proper prefix of the datum {:?} but fails with a {:?} error ({}), not EOF", String::from_utf8_lossy(pre), String::from_utf8_lossy(&text), e.classify(), e));
                    }
                    if let Some(m) = loc_ok(pre, &e) { return Some(format!("{:?}: {}", String::from_utf8_lossy(pre), m)); }
                }
                // the location-tracking API and the stream source on the same prefix
                for (api, r) in [("datum::from_slice_custom", lexpr::datum::from_slice_custom(pre, o.clone()).map(|_| ())), ("datum::from_reader_custom", lexpr::datum::from_reader_custom(pre, o.clone()).map(|_| ())), ("from_reader_custom", lexpr::from_reader_custom(pre, o.clone()).map(|_| ()))] {
                    if let Err(e) = r {
                        if e.classify() != Category::Eof {
                            return Some(format!("{:?} is a proper prefix of the datum {:?} but {} fails with a {:?} error ({}), not EOF", String::from_utf8_lossy(pre), String::from_utf8_lossy(&text), api, e.classify(), e));
                        }
                        if let Some(m) = loc_ok(pre, &e) { return Some(format!("{:?} ({}): {}", String::from_utf8_lossy(pre), api, m)); }
                    }
                }
            }
            None
        }
        "ioerr" => {
            // the reader itself fails: the parse error is I/O-category and converts back to the ORIGINAL io::Error
            struct Failing { data: &'static [u8], pos: usize, at: usize }
            impl io::Read for Failing { fn read(&mut self, buf: &mut [u8]) -> io::Result<usize> {
                if self.pos >= self.at { return Err(io::Error::new(io::ErrorKind::ConnectionReset, "injected")); }
                let n = 1.min(buf.len()).min(self.data.len() - self.pos).min(self.at - self.pos); buf[..n].copy_from_slice(&self.data[self.pos..self.pos + n]); self.pos += n; Ok(n) } }
            let at = p.get(1)?.parse::<usize>().ok()?;
            match lexpr::from_reader(Failing { data: b"(a b c)", pos: 0, at }) {
                Err(e) => { if e.classify() != Category::Io { return Some(format!("reader failing at offset {}: error category {:?}", at, e.classify())); }
                            let k = io::Error::from(e).kind(); if k != io::ErrorKind::ConnectionReset { return Some(format!("reader failing with ConnectionReset at offset {}: io::Error::from(parse error) has kind {:?}, documented: the original error", at, k)); } }
                Ok(v) => return Some(format!("reader failing at offset {} parsed as {}", at, v)),
            }
            // the same through the serde companion crate's error type (it wraps the parse error), and its syntax / EOF kinds
            #[cfg(feature = "with-serde")]
            {
                match serde_lexpr::from_reader::<Vec<String>>(Failing { data: b"(a b c)", pos: 0, at }) {
                    Err(e) => { let k = io::Error::from(e).kind(); if k != io::ErrorKind::ConnectionReset { return Some(format!("serde_lexpr::from_reader failing with ConnectionReset at offset {}: io::Error::from(error) has kind {:?}, documented: the original error", at, k)); } }
                    Ok(v) => return Some(format!("serde_lexpr::from_reader failing at offset {} read {:?}", at, v)),
                }
                for (text, want) in [("(1 2", io::ErrorKind::UnexpectedEof), ("(1 2))", io::ErrorKind::InvalidData), ("\"ab", io::ErrorKind::UnexpectedEof), ("#z", io::ErrorKind::InvalidData), ("(1 a)", io::ErrorKind::InvalidData)] {
                    match serde_lexpr::from_str::<Vec<u32>>(text) { Err(e) => { let k = io::Error::from(e).kind(); if k != want { return Some(format!("serde_lexpr::from_str({:?}): io::Error::from(error) has kind {:?}, documented {:?}", text, k, want)); } }, Ok(v) => return Some(format!("serde_lexpr::from_str({:?}) = {:?}", text, v)) }
                }
            }
            None
        }
        "loc" | "locx" => {
            let text = if p[0] == "locx" { crate::unhex(p.get(1)?) } else { garbage().get(p.get(1)?.parse::<usize>().ok()?)?.as_bytes().to_vec() };
            let o = opts(p.get(2)?.parse::<usize>().ok()?);
            LAST_OPTS.with(|x| *x.borrow_mut() = o.clone());
            for src in 0..3 {
                let r = match src { 0 => lexpr::from_slice_custom(&text, o.clone()), 1 => match std::str::from_utf8(&text) { Ok(s) => lexpr::from_str_custom(s, o.clone()), Err(_) => continue }, _ => lexpr::from_reader_custom(&text[..], o.clone()) };
                if let Err(e) = r { if let Some(m) = loc_ok(&text, &e) { return Some(format!("{:?} (source {}): {} [{}]", String::from_utf8_lossy(&text), src, m, e)); } }
            }
            None
        }
        _ => None,
    }
}
