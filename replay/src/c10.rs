//! C10 witness family: value API vs location-tracking API on the real parser; Datum / Ref walkers vs Value walkers.
use crate::Family;
use lexpr::datum::Ref;
use lexpr::parse::{Brackets, KeywordSyntax, NilSymbol, Options, Parser, TSymbol};
use lexpr::Value;

pub fn family() -> Family {
    Family { name: "c10", cases, check }
}

pub fn corpus() -> Vec<&'static str> {
    vec!["a", "(a b c)", "(a . b)", "[a . b]", "[a b]", "(a [b . c] d)", "first (x [1 2 . 3] y) last", "(a . (b c))", "(a . #nil)", "(1 2 . #nil)", "(a . ())",
         "#(1 2 #(3))", "#u8(1 2 3)", "'a", "'(a . b)", "`(a ,b ,@c)", "(a . 'b)", "(a . `(b))", "((a . b) . (c . d))", "(.a .b)", "(a .b)", "\"s\" #\\c 1.5 -3 #t #f #nil nil t",
         "#:k :k k:", "()", "(())", "[ ]", "#()", "(a", "(a . b c)", "(a . )", "( . a)", "(a]", "[a)", "#(1", "'", "(a . b", "1 2 (3 4", "a ) b", "#u8(1 300)",
         "(a b . c d)", "((((a))))", "(nil . nil)", "(t . t)", "x ; c\n y", "#(a . b)", "[a . b)", "(a . b]", "'[a . b]", "#([a . b])", "(1 #z) 2", "#(1 #z) 2", "(a . ())", "'a '(1 2)", "(define x '(1 2))", "#('a)", "(a . (b . ()))",
         "(a .(b c))", "(1 .[2 3])", "(a .; c\n b)", "(k .\"text\")", "(a .)", "(a .'b)", "(a .#t)", "(a . .b)", "(-;c\n)", "(a -(b))", "(+)", "(a +\"s\")", "-;c\n", "(a . b;c\n)", "(a .\tb)", "(a(b)\"s\"[c])", "#(1 2]", "[1 2)", "(a #(1 2] b)", "nil (nil) (a . nil) #(nil) 'nil [nil]", "t (t) 't", "(a . ", "(a .", "x #((1 . ", "", "  ", "; c", "a b", "(1 2) 3", "(1 2))", "1 ]", "[a b]", "[]", "(let ([x 1]) x)", "#([1 2] 3)", "[x . tok]", "[x y . b]", "'", "(a '", "#(a `", "' a", "`  ; c\n (a)", "(a . b )", "(1 2 . 3 ;c\n)"]
}
pub fn optsets() -> Vec<Options> {
    vec![Options::default(), Options::new(), Options::elisp(), Options::new().with_brackets(Brackets::Vector),
         Options::new().with_nil_symbol(NilSymbol::Special).with_t_symbol(TSymbol::True).with_keyword_syntax(KeywordSyntax::ColonPrefix)]
}

fn cases(ob: &str) -> Vec<String> {
    let mut out = vec![];
    if let Some(seed) = crate::gen::thorough_seed(ob) { for t in crate::gen::texts(seed ^ 10, crate::gen::scale(ob, 300), true) { for oi in [0usize, 2] { out.push(format!("apix:{}:{}", crate::hex(t.as_bytes()), oi)); out.push(format!("walkx:{}:{}", crate::hex(t.as_bytes()), oi)); } } }
    for ci in 0..corpus().len() { for oi in 0..optsets().len() { out.push(format!("api:{}:{}", ci, oi)); out.push(format!("walk:{}:{}", ci, oi)); } }
    for i in 0..deep_texts().len() { out.push(format!("deep:{}", i)); }
    out
}

type Outcome = (Vec<Value>, Option<String>);
fn drain<'de, R: lexpr::parse::Read<'de>>(mut p: Parser<R>, mode: usize) -> Outcome {
    let mut out = vec![];
    for _ in 0..10_000 {
        let r = match mode {
            0 => p.next_value(),
            1 => p.next_datum().map(|o| o.map(Value::from)),
            2 => p.value_iter().next().transpose(),
            3 => p.datum_iter().next().transpose().map(|o| o.map(|d| d.value().clone())),
            _ => p.next().transpose(),
        };
        match r { Ok(Some(v)) => out.push(v), Ok(None) => return (out, None), Err(e) => return (out, Some(e.to_string())) }
    }
    (out, Some("does not terminate".into()))
}

/// the structure the datum's accessors expose must be the structure the value's accessors expose
fn walk(r: Ref<'_>, v: &Value) -> Option<String> {
    if r.value() != v { return Some(format!("Ref::value {} != {}", r.value(), v)); }
    match (r.list_iter(), v.list_iter()) {
        (None, None) => {}
        (Some(mut di), Some(mut vi)) => {
            for _ in 0..10_000 {
                if di.is_empty() != vi.is_empty() { return Some(format!("list_iter().is_empty() disagrees on {}", v)); }
                if di.peek().map(|x| x.value().clone()) != vi.peek().cloned() { return Some(format!("list_iter().peek() disagrees on {}", v)); }
                let (a, b) = (di.next(), vi.next());
                match (a, b) {
                    (None, None) => { if di.is_empty() && vi.is_empty() { break; } }
                    (Some(x), Some(y)) => { if let Some(m) = walk(x, y) { return Some(m); } }
                    (a, b) => return Some(format!("list_iter over {}: datum yields {:?}, value yields {:?}", v, a.map(|x| x.value().to_string()), b.map(|y| y.to_string()))),
                }
            }
        }
        (a, b) => return Some(format!("list_iter() is {} for the datum but {} for the value {}", a.is_some(), b.is_some(), v)),
    }
    match (r.vector_iter(), v.as_slice()) {
        (None, None) => {}
        (Some(di), Some(es)) => {
            let ds: Vec<_> = di.collect();
            if ds.len() != es.len() { return Some(format!("vector_iter length {} != {}", ds.len(), es.len())); }
            for (x, y) in ds.into_iter().zip(es) { if let Some(m) = walk(x, y) { return Some(m); } }
        }
        (a, b) => return Some(format!("vector_iter() is {} but as_slice() is {} for {}", a.is_some(), b.is_some(), v)),
    }
    match (r.as_pair(), v.as_pair()) {
        (None, None) => {}
        (Some((a, d)), Some((va, vd))) => { if a.value() != va || d.value() != vd { return Some(format!("as_pair disagrees on {}", v)); } }
        _ => return Some(format!("as_pair() presence disagrees on {}", v)),
    }
    None
}

fn deep_texts() -> Vec<String> {
    // long streams of small items followed by nested ones (a budget or buffer leaking per item shows up after ~127 items in one API only)
    let tail = format!(" {}x{} #(1 #(2 (3))) '(a 'b)", "(".repeat(60), ")".repeat(60));
    vec![format!("{}{}", "() ".repeat(200), tail), format!("({}){}", "() [] ".repeat(150), tail), format!("{}{}", "#(() []) ".repeat(70), tail), format!("{}{}", "'a ".repeat(200), tail),
         format!("{}{}", "#() ".repeat(200), tail), format!("{}{}", "(a . b) ".repeat(200), tail), format!("{}{}", "#u8() \"s\" ".repeat(150), tail), format!("{}{}", "(1 #z) ".repeat(3), tail),
         format!("{}a", "'".repeat(130)), format!("{}a", ",@".repeat(128)), format!("{}{}a{}", "(".repeat(100), "'".repeat(30), ")".repeat(100)),
         format!("{}{}a{}", "#(".repeat(110), "`".repeat(20), ")".repeat(110)), format!("{}a", "'".repeat(120))]
}
fn check(case: &str) -> Option<String> {
    let p: Vec<&str> = case.split(':').collect();
    if p[0] == "deep" {
        let text = deep_texts().into_iter().nth(p.get(1)?.parse::<usize>().ok()?)?;
        let v = drain(Parser::from_str(&text), 0);
        for mode in 1..5 { let d = drain(Parser::from_str(&text), mode); if d != v { return Some(format!("{} quote/list levels: next_value loop ends with {:?}, iteration style {} with {:?}", text.len(), v.1, mode, d.1)); } }
        return None;
    }
    let owned: String;
    let text: &str = if p[0].ends_with('x') { owned = String::from_utf8(crate::unhex(p.get(1)?)).ok()?; &owned } else { *corpus().get(p.get(1)?.parse::<usize>().ok()?)? };
    let o = optsets().get(p.get(2)?.parse::<usize>().ok()?)?.clone();
    match p[0] {
        "api" | "apix" => {
            for src in 0..3 {
                let base = match src {
                    0 => drain(Parser::from_str_custom(text, o.clone()), 0),
                    1 => drain(Parser::from_slice_custom(text.as_bytes(), o.clone()), 0),
                    _ => drain(Parser::from_reader_custom(text.as_bytes(), o.clone()), 0),
                };
                for mode in 1..5 {
                    let got = match src {
                        0 => drain(Parser::from_str_custom(text, o.clone()), mode),
                        1 => drain(Parser::from_slice_custom(text.as_bytes(), o.clone()), mode),
                        _ => drain(Parser::from_reader_custom(text.as_bytes(), o.clone()), mode),
                    };
                    if got != base {
                        let names = ["next_value", "next_datum", "value_iter", "datum_iter", "Iterator for Parser"];
                        return Some(format!("{:?}: next_value loop gives {:?}, {} (source {}) gives {:?}", text, base, names[mode], src, got));
                    }
                }
            }
            // the one-shot entry points of the two APIs: same value, or the same error
            let show = |r: Result<Value, lexpr::parse::Error>| match r { Ok(v) => format!("Ok({})", v), Err(e) => format!("Err({})", e) };
            let pairs = [("from_str_custom", show(lexpr::from_str_custom(text, o.clone())), show(lexpr::datum::from_str_custom(text, o.clone()).map(Value::from))),
                         ("from_slice_custom", show(lexpr::from_slice_custom(text.as_bytes(), o.clone())), show(lexpr::datum::from_slice_custom(text.as_bytes(), o.clone()).map(Value::from))),
                         ("from_reader_custom", show(lexpr::from_reader_custom(text.as_bytes(), o.clone())), show(lexpr::datum::from_reader_custom(text.as_bytes(), o.clone()).map(Value::from)))];
            for (name, a, b) in pairs { if a != b { return Some(format!("{:?}: lexpr::{} gives {}, lexpr::datum::{} gives {}", text, name, a, name, b)); } }
            None
        }
        "walk" | "walkx" => {
            let mut parser = Parser::from_str_custom(text, o);
            while let Ok(Some(d)) = parser.next_datum() {
                let v = d.value().clone();
                if let Some(m) = walk(d.as_ref(), &v) { return Some(format!("{:?}: {}", text, m)); }
                if Value::from(d.clone()) != v { return Some(format!("{:?}: Value::from(datum) != datum.value()", text)); }
            }
            None
        }
        _ => None,
    }
}
