//! C11 witness family: spans of every reachable sub-datum on the real parser, for all three sources.
use crate::Family;
use lexpr::datum::{Datum, Ref, Span};
use lexpr::parse::{Options, Parser, Position};

pub fn family() -> Family {
    Family { name: "c11", cases, check }
}

fn corpus() -> Vec<&'static str> {
    vec!["\u{feff}(a b)", "\u{feff}a\n(b)", "(\u{feff}a b)", "a", "  foo", "(a b)", "(a\n b)", "'x", "#(1 2)", "(a . b)", "(a (b c) . d)", "#u8(1 2)", "`(a ,b ,@c)", ",@x", "'(a 'b)", "\"str\\n\" #\\x", "(1.5 -2 #t)",
         "\u{3bb} (\u{3bb}x \"\u{3bb}\" y)", "\"\u{e9}\" z", "(a . 'b)", "[a b]", "#(a #(b) (c))", "(a ; c\n b)\n(c\n\n d)", "(.a)", "(a . (b c))", "((a) (b))", "  ( a )  b", "(,@a)", "'#(1)", "''a", "(a\r b)\r\n(c\r d)", "a\r\nb", "(doc \"first\nsecond\" tail)", "\"a\n\nb\" x\n(y \"\n\")", "(a\n,\nb)", "sym\n12\n:k\n", "\n\n  (a b)", "  \n (x\n y)  \n", "\t\"s\"", " ; c\n  (a . b) ", "\r\n\r\n  #(1\r\n 2)", "\n#\\a", "   'q   ",
         "(a .\u{3bb}x b)", "(.\u{65e5}\u{672c} 1)", "(\"s\".\u{e9}\u{e9})", "(.foo .. ...)", "( )", "(\n)", "( ; c\n )", "[ ]", "(a ( ) b)", "#( )", "#u8( )", "(\u{3bb} .\u{3bb})", "(a . \u{3bb})", "'\u{3bb}", "(\"\u{3bb}\" . \"\u{1f600}\")", "(foo\"bar\" baz)", "a\"b\"c", "(a\tb\tc)", "foo\tbar", "(x:\"s\")", "' foo", "`  ; c\n (a)", ",@ x", "'a 'b", "(1 'a . 'b)"]
}
fn optsets() -> Vec<Options> { vec![Options::default(), Options::elisp()] }

fn cases(ob: &str) -> Vec<String> {
    let mut out = vec![];
    if let Some(seed) = crate::gen::thorough_seed(ob) { for t in crate::gen::texts(seed ^ 11, crate::gen::scale(ob, 400), false) { for oi in 0..2 { out.push(format!("spanx:{}:{}", crate::hex(t.as_bytes()), oi)); } } }
    for ci in 0..corpus().len() { for oi in 0..optsets().len() { out.push(format!("span:{}:{}", ci, oi)); } }
    out
}

fn offset(input: &[u8], pos: Position) -> Result<usize, String> {
    if pos.line() < 1 { return Err(format!("line {} < 1", pos.line())); }
    let mut line_start = 0;
    for _ in 1..pos.line() {
        match input[line_start..].iter().position(|&b| b == b'\n') { Some(nl) => line_start += nl + 1, None => return Err(format!("line {} is past the end of the input", pos.line())) }
    }
    let line_len = input[line_start..].iter().position(|&b| b == b'\n').unwrap_or(input.len() - line_start);
    if pos.column() > line_len { return Err(format!("column {} is past the end of line {}", pos.column(), pos.line())); }
    Ok(line_start + pos.column())
}
fn range(input: &[u8], s: Span) -> Result<(usize, usize), String> {
    let (a, b) = (offset(input, s.start())?, offset(input, s.end())?);
    if a >= b { return Err(format!("empty or reversed span {:?}", s)); }
    Ok((a, b))
}

fn check_ref(input: &[u8], o: &Options, r: Ref<'_>, parent: (usize, usize), head_of_shorthand: bool) -> Result<(usize, usize), String> {
    let (a, b) = range(input, r.span()).map_err(|e| format!("{} for sub-datum {}", e, r.value()))?;
    if a < parent.0 || b > parent.1 { return Err(format!("span {:?} of {} is not inside its parent {:?}", (a, b), r.value(), parent)); }
    let text = &input[a..b];
    if head_of_shorthand {
        let want: &[u8] = match r.value().as_symbol() { Some("quote") => b"'", Some("quasiquote") => b"`", Some("unquote") => b",", Some("unquote-splicing") => b",@", _ => b"?" };
        if text != want { return Err(format!("head of a quote shorthand covers {:?}, not {:?}", String::from_utf8_lossy(text), String::from_utf8_lossy(want))); }
        return Ok((a, b));
    }
    // the head of a quote shorthand can also be reached in the middle of a list: (a . 'b) reads as (a quote b)
    let as_head: Option<&[u8]> = match r.value().as_symbol() { Some("quote") => Some(b"'"), Some("quasiquote") => Some(b"`"), Some("unquote") => Some(b","), Some("unquote-splicing") => Some(b",@"), _ => None };
    if as_head == Some(text) { return Ok((a, b)); }
    let mut p = Parser::from_slice_custom(text, o.clone());
    match p.expect_value() {
        Ok(v) => { if &v != r.value() || p.expect_end().is_err() { return Err(format!("text {:?} covered by the span of {} parses as {}", String::from_utf8_lossy(text), r.value(), v)); } }
        Err(e) => return Err(format!("text {:?} covered by the span of {} does not parse: {}", String::from_utf8_lossy(text), r.value(), e)),
    }
    let shorthand = matches!(text[0], b'\'' | b'`' | b',');
    let mut last = a;
    if let Some(items) = r.list_iter() {
        for (i, it) in items.enumerate() {
            let (x, y) = check_ref(input, o, it, (a, b), shorthand && i == 0)?;
            if x < last { return Err(format!("element {} of {} starts at {} before its predecessor ends at {}", i, r.value(), x, last)); }
            last = y;
        }
    }
    if let Some(mut it) = r.list_iter() {
        // a finished list iterator stays finished: elements, [None, tail] for a dotted list, then None for ever and is_empty()
        let proper = r.value().is_list();
        let mut guard = 0;
        while it.next().is_some() { guard += 1; if guard > 10_000 { break; } }
        if !proper { if it.next().is_none() { return Err(format!("list_iter over the dotted list {} does not yield its tail after the separating None", r.value())); } if it.next().is_some() { return Err(format!("list_iter over {} yields an element after the tail", r.value())); } }
        if it.next().is_some() || !it.is_empty() { return Err(format!("list_iter over {} is not finished after its end (is_empty() = {})", r.value(), it.is_empty())); }
    }
    if let Some(items) = r.vector_iter() {
        for (i, it) in items.enumerate() {
            let (x, y) = check_ref(input, o, it, (a, b), false)?;
            if x < last { return Err(format!("element {} of {} starts at {} before its predecessor ends at {}", i, r.value(), x, last)); }
            last = y;
        }
    }
    Ok((a, b))
}

fn spans(d: &Datum) -> Vec<Span> {
    fn go(r: Ref<'_>, out: &mut Vec<Span>) {
        out.push(r.span());
        if let Some(it) = r.list_iter() { for x in it { go(x, out); } }
        if let Some(it) = r.vector_iter() { for x in it { go(x, out); } }
    }
    let mut out = vec![];
    go(d.as_ref(), &mut out);
    out
}

fn check(case: &str) -> Option<String> {
    let p: Vec<&str> = case.split(':').collect();
    let owned: String;
    let text: &str = if p[0].ends_with('x') { owned = String::from_utf8(crate::unhex(p.get(1)?)).ok()?; &owned } else { *corpus().get(p.get(1)?.parse::<usize>().ok()?)? };
    let o = optsets().get(p.get(2)?.parse::<usize>().ok()?)?.clone();
    let input = text.as_bytes();
    let mut ps = Parser::from_str_custom(text, o.clone());
    let mut pb = Parser::from_slice_custom(input, o.clone());
    let mut pr = Parser::from_reader_custom(input, o.clone());
    // the single-datum entry points of the datum module, all sources: same spans as the parser's first datum, and they delimit the datum's text
    let first = Parser::from_str_custom(text, o.clone()).next_datum().ok().flatten().map(|d| spans(&d));
    for (name, got) in [("datum::from_str_custom", lexpr::datum::from_str_custom(text, o.clone())), ("datum::from_slice_custom", lexpr::datum::from_slice_custom(input, o.clone())), ("datum::from_reader_custom", lexpr::datum::from_reader_custom(input, o.clone()))] {
        if let Ok(d) = got {
            if let Err(m) = check_ref(input, &o, d.as_ref(), (0, input.len()), false) { return Some(format!("{:?} via {}: {}", text, name, m)); }
            if Some(spans(&d)) != first { return Some(format!("{:?}: spans from {} {:?} differ from Parser::from_str(..).next_datum() {:?}", text, name, spans(&d), first)); }
        }
    }
    let mut last = 0usize;
    loop {
        let d = match ps.next_datum() { Ok(Some(d)) => d, _ => return None };
        match check_ref(input, &o, d.as_ref(), (0, input.len()), false) {
            Ok((a, b)) => { if a < last { return Some(format!("{:?}: datum {} starts before the previous one ends", text, d.value())); } last = b; }
            Err(m) => return Some(format!("{:?}: {}", text, m)),
        }
        let want = spans(&d);
        for (name, got) in [("slice", pb.next_datum()), ("reader", pr.next_datum())] {
            match got {
                Ok(Some(d2)) => { let s2 = spans(&d2); if s2 != want { return Some(format!("{:?}: spans from the {} source {:?} differ from the str source {:?}", text, name, s2, want)); } }
                _ => return Some(format!("{:?}: the {} source does not yield the datum the str source yields", text, name)),
            }
        }
    }
}
