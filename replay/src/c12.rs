//! C12 witness family: concatenation / trivia insensitivity / terminating iteration on the real parser.
use crate::Family;
use lexpr::{parse, Parser, Value};

pub fn family() -> Family {
    Family { name: "c12", cases, check }
}

fn trivia() -> Vec<&'static str> {
    vec![" ", "\t", "\r", "\n", "\x0c", " \x0c ", ";c\n", "\r\n", " ;x\n\t"]
}
fn values() -> Vec<Value> {
    vec![Value::symbol("foo"), Value::from(12), Value::from("s"), Value::keyword("k"), Value::from('c'), Value::list(vec![1, 2]),
         Value::from(vec![Value::symbol("a"), Value::from(1.5)]), Value::from(true), Value::Nil, Value::Null, Value::symbol("bar"), Value::from(-7), Value::symbol("-"), Value::symbol("+"), Value::symbol("..."), Value::from('x'), Value::from('a'), Value::from(' '), Value::from('\n'), Value::from('\u{3bb}'), Value::from('('), Value::from("x y"), Value::from(1.5)]
}

fn cases(ob: &str) -> Vec<String> {
    let mut out = vec![];
    if let Some(seed) = crate::gen::thorough_seed(ob) { for t in crate::gen::texts(seed ^ 12, crate::gen::scale(ob, 400), true) { out.push(format!("iterx:{}", crate::hex(t.as_bytes()))); } }
    for (ti, _) in trivia().iter().enumerate() {
        for i in 0..values().len() {
            for j in 0..values().len() {
                if (i + j + ti) % 3 == 0 { out.push(format!("concat:{}:{}:{}", ti, i, j)); }
            }
        }
    }
    for (ti, _) in trivia().iter().enumerate() { for si in 0..token_seqs().len() { out.push(format!("triv:{}:{}", ti, si)); } }
    out.push("leak:0".into()); out.push("leak:1".into());
    for k in 0..4 { out.push(format!("seq:{}", k)); }
    for t in ["(a . b )", "(1 2 . 3\n)", "(a . b ;c\n)", "( a )", "(a . b\t) c", "[a . b ]", "#( 1 )", "#u8( 1 2 )", "' a", "'#z '#z (a)", "", ")", "(", "#", "\"abc", "(a . )", "1.", "#\\", "]", "(]", "#u8(300)", "a)b", ") ) )", "(1 #z) 2", "#(1 #z) 2", "(1 (2 #z) 3) 4", "[1 #z] 2", "(a . #z) b", "#u8(1 x) 2", "(1 2", "\"x", "1 #z 2"] {
        out.push(format!("iter:{}", crate::hex(t.as_bytes())));
    }
    out
}

/// token sequences: joined by single spaces they denote some datums; replacing any one separator by other trivia (or adding trivia
/// at either end) must not change what is read, through the value path and the datum path
fn token_seqs() -> Vec<Vec<&'static str>> {
    vec![vec!["(", "a", ".", "b", ")"], vec!["(", "1", "2", ".", "3", ")", "x"], vec!["(", "a", "(", "b", ".", "c", ")", ")"], vec!["[", "a", ".", "b", "]"], vec!["#(", "1", "(", "2", ")", ")"],
         vec!["#u8(", "1", "2", ")"], vec!["'", "a", "`", "(", ",", "b", ",@", "c", ")"], vec!["(", ")", "(", "(", ")", ")"], vec!["\"s\"", "#\\a", "12", "#t", "(", "-", "+", "...", ")"], vec!["(", "a", ".", "(", "b", ".", "(", ")", ")", ")"]]
}
fn read_all(text: &str, datum: bool) -> Vec<String> {
    let mut p = Parser::from_str(text);
    let mut out = vec![];
    for _ in 0..64 {
        let r = if datum { p.next_datum().map(|o| o.map(|d| d.value().clone())) } else { p.next_value() };
        match r { Ok(Some(v)) => out.push(format!("Ok({})", v)), Ok(None) => break, Err(e) => { out.push(format!("Err({:?})", e.classify())); break; } }
    }
    out
}
fn check(case: &str) -> Option<String> {
    let p: Vec<&str> = case.split(':').collect();
    match p[0] {
        "seq" => {
            // ONE parser reads a long heterogeneous sequence (buffers, look-ahead and budget carried from item to item): every item equals the item parsed on its own
            let k = p[1].parse::<usize>().ok()?;
            let mut items: Vec<Value> = values();
            items.extend([Value::from("a long string with an escape \\ and \n a line break, longer than the ones before it"), Value::from(""), Value::symbol("a-rather-long-symbol-name-that-outgrows-the-buffer"), Value::symbol("s"), Value::symbol("\u{3bb}-test"), Value::symbol("-k"), Value::symbol("\u{e9}clair"), Value::symbol("+x"), Value::symbol("\u{3bb}"), Value::symbol("...rest"),
                          Value::from("\u{3bb}\u{1f600}"), Value::keyword("long-keyword-name"), Value::from('\u{1f600}'), Value::from(vec![1u8, 2, 255].into_boxed_slice()), Value::from(""), Value::from("z"),
                          Value::list(vec![Value::from("in a list"), Value::symbol("sym"), Value::from('c')]), Value::from(18446744073709551615u64), Value::from(-9223372036854775807i64), Value::from(1e300), Value::from("end")]);
            if k % 2 == 1 { items.reverse(); }
            if k >= 2 { let d = items.clone(); items.extend(d); }
            for (popt, ropt) in [(lexpr::print::Options::default(), lexpr::parse::Options::default()), (lexpr::print::Options::elisp(), lexpr::parse::Options::elisp())] {
                let texts: Vec<String> = items.iter().map(|v| lexpr::to_string_custom(v, popt).unwrap()).collect();
                let alone: Vec<Result<Value, String>> = texts.iter().map(|t| lexpr::from_str_custom(t, ropt.clone()).map_err(|e| e.to_string())).collect();
                for sep in [" ", "\n", " ; c\n"] {
                    let text = texts.join(sep);
                    let runs: Vec<(&str, Vec<Result<Value, String>>)> = vec![
                        ("next_value over &str", { let mut q = Parser::from_str_custom(&text, ropt.clone()); let mut o = vec![]; while let Some(r) = q.next_value().transpose() { o.push(r.map_err(|e| e.to_string())); if o.len() > items.len() + 2 || o.last().unwrap().is_err() { break; } } o }),
                        ("datum_iter over a byte slice", { let mut q = Parser::from_slice_custom(text.as_bytes(), ropt.clone()); let mut o = vec![]; for r in q.datum_iter() { o.push(r.map(|d| d.value().clone()).map_err(|e| e.to_string())); if o.len() > items.len() + 2 || o.last().unwrap().is_err() { break; } } o }),
                        ("value_iter over a stream", { let mut q = Parser::from_reader_custom(text.as_bytes(), ropt.clone()); let mut o = vec![]; for r in q.value_iter() { o.push(r.map_err(|e| e.to_string())); if o.len() > items.len() + 2 || o.last().unwrap().is_err() { break; } } o }),
                    ];
                    for (how, got) in runs {
                        if got.len() != alone.len() { return Some(format!("{} items printed one after the other (separator {:?}): {} yields {} items", alone.len(), sep, how, got.len())); }
                        for (i, (g, a)) in got.iter().zip(alone.iter()).enumerate() {
                            if g != a { return Some(format!("item {} ({:?}) of a sequence of {} read by {} is {:?}, parsed on its own it is {:?}", i, texts[i], alone.len(), how, g, a)); }
                        }
                    }
                }
            }
            None
        }
        "concat" => {
            let t = trivia()[p[1].parse::<usize>().ok()?];
            let a = values()[p[2].parse::<usize>().ok()?].clone();
            let b = values()[p[3].parse::<usize>().ok()?].clone();
            for (lead, trail) in [("", ""), (t, ""), ("", t), (t, t)] {
                let text = format!("{}{}{}{}{}", lead, lexpr::to_string(&a).ok()?, t, lexpr::to_string(&b).ok()?, trail);
                let mut parser = Parser::from_str(&text);
                let got: Vec<_> = parser.value_iter().collect();
                let ok = got.len() == 2 && got[0].as_ref().ok() == Some(&a) && got[1].as_ref().ok() == Some(&b);
                if !ok {
                    return Some(format!("{:?} parsed as {:?}, want [{}, {}]", text, got.iter().map(|r| match r { Ok(v) => v.to_string(), Err(e) => format!("Err({})", e) }).collect::<Vec<_>>(), a, b));
                }
                let mut p2 = Parser::from_str(&text);
                let d: Vec<_> = p2.datum_iter().map(|r| r.map(|d| d.value().clone())).collect();
                if d.len() != 2 || d[0].as_ref().ok() != Some(&a) || d[1].as_ref().ok() != Some(&b) { return Some(format!("datum_iter disagrees on {:?}", text)); }
                // the same concatenation from a byte slice and from a stream
                let mut p3 = Parser::from_slice(text.as_bytes());
                let g3: Vec<_> = p3.value_iter().collect();
                let mut p4 = Parser::from_reader(text.as_bytes());
                let g4: Vec<_> = p4.value_iter().collect();
                for (name, g) in [("byte slice", &g3), ("stream", &g4)] {
                    if !(g.len() == 2 && g[0].as_ref().ok() == Some(&a) && g[1].as_ref().ok() == Some(&b)) {
                        return Some(format!("{:?} read from a {} parses as {:?}, want [{}, {}]", text, name, g.iter().map(|r| match r { Ok(v) => v.to_string(), Err(e) => format!("Err({})", e) }).collect::<Vec<_>>(), a, b));
                    }
                }
            }
            None
        }
        "triv" => {
            let t = trivia()[p[1].parse::<usize>().ok()?];
            let toks = token_seqs().into_iter().nth(p[2].parse::<usize>().ok()?)?;
            let base = toks.join(" ");
            let want = read_all(&base, false);
            if want.iter().any(|s| s.starts_with("Err")) { return Some(format!("{:?} does not parse: {:?}", base, want)); }
            for at in 0..=toks.len() {
                let mut text = String::new();
                for (i, tk) in toks.iter().enumerate() { if i == at { text.push_str(t); } else if i > 0 { text.push(' '); } text.push_str(tk); }
                if at == toks.len() { text.push_str(t); }
                for datum in [false, true] {
                    let got = read_all(&text, datum);
                    if got != want { return Some(format!("{:?} reads as {:?} through the {} path, but {:?} (single spaces) reads as {:?}", text, got, if datum { "datum" } else { "value" }, base, want)); }
                }
            }
            None
        }
        "leak" => {
            // one long-lived parser: errors inside quotations / lists / vectors must not use up the nesting budget for what follows
            let datum = p[1] == "1";
            for bad in ["'#z ", "`#z ", ",@#z ", "(#z) ", "#(#z) ", "'(#z) ", "(a . #z) ", "''#z "] {
                let text = format!("{}{}{}", bad.repeat(200), "(".repeat(120), ")".repeat(120));
                let mut parser = Parser::from_str(&text);
                let mut last = String::new();
                let mut ok = false;
                for _ in 0..2000 {
                    let r = if datum { parser.next_datum().map(|o| o.map(|d| d.value().clone())) } else { parser.next_value() };
                    match r { Ok(Some(v)) => { if v.is_list() && !v.is_null() { ok = true; break; } } Ok(None) => break, Err(e) => { last = e.to_string(); } }
                }
                if !ok { return Some(format!("after 200 failed items {:?} a 120-deep list is no longer read by the same parser ({} path): last error {:?}", bad, if datum { "datum" } else { "value" }, last)); }
            }
            None
        }
        "iter" | "iterx" => {
            // the four ways of iterating, item by item (capped): they must agree; on the fixed inputs ("iter") they must also end
            let bytes = crate::unhex(p[1]);
            let cap = bytes.len() + 3;
            let show = |r: Option<Result<Value, parse::Error>>| match r { None => "end".to_string(), Some(Ok(v)) => format!("Ok({})", v), Some(Err(e)) => format!("Err({})", e) };
            let mut runs: Vec<Vec<String>> = vec![];
            for mode in 0..4 {
                let mut parser = Parser::from_slice_custom(&bytes, parse::Options::default());
                let mut items = vec![];
                for _ in 0..cap {
                    let it = match mode {
                        0 => parser.next_value().transpose(),
                        1 => parser.value_iter().next(),
                        2 => parser.datum_iter().next().map(|r| r.map(|d| d.value().clone())),
                        _ => parser.next(),
                    };
                    let done = it.is_none();
                    items.push(show(it));
                    if done { break; }
                }
                runs.push(items);
            }
            let names = ["next_value loop", "value_iter", "datum_iter", "Iterator for Parser"];
            for m in 1..4 { if runs[m] != runs[0] { return Some(format!("over {:?} the {} yields {:?} but the {} yields {:?}", String::from_utf8_lossy(&bytes), names[0], runs[0], names[m], runs[m])); } }
            if p[0] == "iter" && runs[1].last().map(|s| s.as_str()) != Some("end") {
                return Some(format!("value_iter over {:?} yields more than {} items (does not terminate)", String::from_utf8_lossy(&bytes), cap - 1));
            }
            None
        }
        _ => None,
    }
}
