//! C12 witness family: concatenation / trivia insensitivity / terminating iteration on the real parser.
use crate::Family;
use lexpr::{parse, Parser, Value};

pub fn family() -> Family {
    Family { name: "c12", cases, check }
}

fn trivia() -> Vec<&'static str> {
    vec![" ", "\t", "\r", "\n", "\x0c", " \x0c ", ";c\n", "\r\n", " ;x\n\t"]
}
fn values() -> Vec<Value> {
    vec![Value::symbol("foo"), Value::from(12), Value::from("s"), Value::keyword("k"), Value::from('c'), Value::list(vec![1, 2]),
         Value::from(vec![Value::symbol("a"), Value::from(1.5)]), Value::from(true), Value::Nil, Value::Null, Value::symbol("bar"), Value::from(-7), Value::symbol("-"), Value::symbol("+"), Value::symbol("...")]
}

fn cases(ob: &str) -> Vec<String> {
    let mut out = vec![];
    if let Some(seed) = crate::gen::thorough_seed(ob) { for t in crate::gen::texts(seed ^ 12, crate::gen::scale(ob, 400), true) { out.push(format!("iterx:{}", crate::hex(t.as_bytes()))); } }
    for (ti, _) in trivia().iter().enumerate() {
        for i in 0..values().len() {
            for j in 0..values().len() {
                if (i + j + ti) % 3 == 0 { out.push(format!("concat:{}:{}:{}", ti, i, j)); }
            }
        }
    }
    for t in ["", ")", "(", "#", "\"abc", "(a . )", "1.", "#\\", "]", "(]", "#u8(300)", "a)b", ") ) )", "(1 #z) 2", "#(1 #z) 2", "(1 (2 #z) 3) 4", "[1 #z] 2", "(a . #z) b", "#u8(1 x) 2", "(1 2", "\"x", "1 #z 2"] {
        out.push(format!("iter:{}", crate::hex(t.as_bytes())));
    }
    out
}

fn check(case: &str) -> Option<String> {
    let p: Vec<&str> = case.split(':').collect();
    match p[0] {
        "concat" => {
            let t = trivia()[p[1].parse::<usize>().ok()?];
            let a = values()[p[2].parse::<usize>().ok()?].clone();
            let b = values()[p[3].parse::<usize>().ok()?].clone();
            for (lead, trail) in [("", ""), (t, ""), ("", t), (t, t)] {
                let text = format!("{}{}{}{}{}", lead, lexpr::to_string(&a).ok()?, t, lexpr::to_string(&b).ok()?, trail);
                let mut parser = Parser::from_str(&text);
                let got: Vec<_> = parser.value_iter().collect();
                let ok = got.len() == 2 && got[0].as_ref().ok() == Some(&a) && got[1].as_ref().ok() == Some(&b);
                if !ok {
                    return Some(format!("{:?} parsed as {:?}, want [{}, {}]", text, got.iter().map(|r| match r { Ok(v) => v.to_string(), Err(e) => format!("Err({})", e) }).collect::<Vec<_>>(), a, b));
                }
                let mut p2 = Parser::from_str(&text);
                let d: Vec<_> = p2.datum_iter().map(|r| r.map(|d| d.value().clone())).collect();
                if d.len() != 2 || d[0].as_ref().ok() != Some(&a) || d[1].as_ref().ok() != Some(&b) { return Some(format!("datum_iter disagrees on {:?}", text)); }
            }
            None
        }
        "iter" | "iterx" => {
            // the four ways of iterating, item by item (capped): they must agree; on the fixed inputs ("iter") they must also end
            let bytes = crate::unhex(p[1]);
            let cap = bytes.len() + 3;
            let show = |r: Option<Result<Value, parse::Error>>| match r { None => "end".to_string(), Some(Ok(v)) => format!("Ok({})", v), Some(Err(e)) => format!("Err({})", e) };
            let mut runs: Vec<Vec<String>> = vec![];
            for mode in 0..4 {
                let mut parser = Parser::from_slice_custom(&bytes, parse::Options::default());
                let mut items = vec![];
                for _ in 0..cap {
                    let it = match mode {
                        0 => parser.next_value().transpose(),
                        1 => parser.value_iter().next(),
                        2 => parser.datum_iter().next().map(|r| r.map(|d| d.value().clone())),
                        _ => parser.next(),
                    };
                    let done = it.is_none();
                    items.push(show(it));
                    if done { break; }
                }
                runs.push(items);
            }
            let names = ["next_value loop", "value_iter", "datum_iter", "Iterator for Parser"];
            for m in 1..4 { if runs[m] != runs[0] { return Some(format!("over {:?} the {} yields {:?} but the {} yields {:?}", String::from_utf8_lossy(&bytes), names[0], runs[0], names[m], runs[m])); } }
            if p[0] == "iter" && runs[1].last().map(|s| s.as_str()) != Some("end") {
                return Some(format!("value_iter over {:?} yields more than {} items (does not terminate)", String::from_utf8_lossy(&bytes), cap - 1));
            }
            None
        }
        _ => None,
    }
}
