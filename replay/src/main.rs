//! Replay / witness search against the REAL crates of /repo.
//!
//! This program decides nothing.  It is run only after the verifier refuted a named obligation:
//! `find <family> [obligation]` searches a small family of concrete inputs for one on which the real
//! code contradicts the clause, `run <family> <case>` re-executes one recorded case.
//! exit 0 = case passes / nothing found, exit 1 = failing input (printed), exit 2 = usage.
use std::env;
use std::process::exit;

mod gen;
mod c03;
mod c05;
mod c06;
mod c07;
mod c08;
mod c10;
mod c11;
mod c12;
#[cfg(feature = "with-serde")]
mod c14;
mod c15;
mod c17;
mod c19;
mod c20;

pub type Check = fn(&str) -> Option<String>;

pub struct Family {
    pub name: &'static str,
    pub cases: fn(&str) -> Vec<String>,
    pub check: Check,
}

fn families() -> Vec<Family> {
    #[allow(unused_mut)]
    let mut v = vec![c20::family(), c15::family(), c07::family(), c05::family(), c06::family(), c08::family(), c10::family(), c11::family(), c12::family(), c03::family(), c19::family(), c17::family()];
    #[cfg(feature = "with-serde")]
    { v.push(c14::family()); v.push(c14::family18()); }
    v
}

pub fn hex(b: &[u8]) -> String {
    b.iter().map(|x| format!("{:02x}", x)).collect()
}
pub fn unhex(s: &str) -> Vec<u8> {
    (0..s.len() / 2).map(|i| u8::from_str_radix(&s[2 * i..2 * i + 2], 16).unwrap()).collect()
}

/// hang guard: a case that produces no result within 60 s is reported as a failing input (the process exits, which ends the stuck thread)
static CASE_NO: std::sync::atomic::AtomicU64 = std::sync::atomic::AtomicU64::new(0);
static CURRENT: std::sync::Mutex<String> = std::sync::Mutex::new(String::new());
fn watchdog(tag: &'static str) {
    std::thread::spawn(move || {
        let (mut last, mut since) = (u64::MAX, std::time::Instant::now());
        loop {
            std::thread::sleep(std::time::Duration::from_millis(500));
            let now = CASE_NO.load(std::sync::atomic::Ordering::SeqCst);
            if now != last { last = now; since = std::time::Instant::now(); continue; }
            if since.elapsed().as_secs() >= 60 {
                let c = CURRENT.lock().map(|g| g.clone()).unwrap_or_default();
                println!("{} {}\ndoes not terminate: no result within 60 s", tag, c);
                exit(1);
            }
        }
    });
}
fn begin_case(c: &str) { if let Ok(mut g) = CURRENT.lock() { *g = c.to_string(); } CASE_NO.fetch_add(1, std::sync::atomic::Ordering::SeqCst); }

fn main() {
    let args: Vec<String> = env::args().collect();
    if args.len() < 3 {
        eprintln!("usage: vx-replay find <family> [obligation] | run <family> <case>");
        exit(2);
    }
    let fams = families();
    let fam = match fams.iter().find(|f| f.name == args[2]) {
        Some(f) => f,
        None => {
            eprintln!("unknown family {}", args[2]);
            exit(2)
        }
    };
    match args[1].as_str() {
        "find" => {
            let ob = args.get(3).map(|s| s.as_str()).unwrap_or("");
            // --skip <text>: failing cases whose message contains <text> are recorded known findings, not new witnesses
            let mut skips: Vec<String> = vec![];
            let mut i = 4;
            while i + 1 < args.len() { if args[i] == "--skip" { skips.push(args[i + 1].clone()); } i += 2; }
            let cases = (fam.cases)(ob);
            let n = cases.len();
            watchdog("FOUND");
            for c in cases {
                begin_case(&c);
                let r = std::panic::catch_unwind(|| (fam.check)(&c));
                let msg = match r {
                    Ok(None) => continue,
                    Ok(Some(m)) => m,
                    Err(_) => "panic".to_string(),
                };
                if skips.iter().any(|s| msg.contains(s.as_str())) { println!("KNOWN {}", c); continue; }
                println!("FOUND {}", c);
                println!("{}", msg);
                exit(1);
            }
            println!("NOTFOUND {}", n);
            exit(0);
        }
        "run" => {
            let c = args.get(3).cloned().unwrap_or_default();
            watchdog("FAIL");
            begin_case(&c);
            let r = std::panic::catch_unwind(|| (fam.check)(&c));
            match r {
                Ok(None) => {
                    println!("PASS {}", c);
                    exit(0)
                }
                Ok(Some(m)) => {
                    println!("FAIL {}\n{}", c, m);
                    exit(1)
                }
                Err(_) => {
                    println!("FAIL {}\npanic", c);
                    exit(1)
                }
            }
        }
        _ => exit(2),
    }
}
