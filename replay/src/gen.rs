//! Thorough tier: seeded random S-expression-like texts over a token alphabet (valid and slightly malformed), shared by the families.
pub struct Rng(u64);
impl Rng {
    pub fn new(seed: u64) -> Self { Rng(seed.wrapping_mul(0x9E3779B97F4A7C15) ^ 0xD1B54A32D192ED03) }
    pub fn next(&mut self) -> u64 { let mut x = self.0; x ^= x << 13; x ^= x >> 7; x ^= x << 17; self.0 = x; x }
    pub fn below(&mut self, n: usize) -> usize { (self.next() % n as u64) as usize }
}
const ATOMS: &[&str] = &["a", "foo", "nil", "t", "#t", "#f", "#nil", "12", "-7", "1.5", "1e3", "#xff", "\"s\"", "\"a\\n\\x41;b\"", "\"\u{3bb}\"", "#\\a", "#\\space", "#\\x41", ":k", "k:", "#:k", "\u{3bb}x", "+", "-", "...", "a.b", "?a", "#u8(1 2)", "#()", "()", "|", "1+", "#\\backspace", "#\\\u{3bb}", "-1a", "+.5", "1e999", ".\u{3bb}", ".a", "( )", "..", "\"\\x3bb;\""];
const TRIVIA: &[&str] = &[" ", " ", " ", "\n", "\t", "\r\n", " ; c\n", "\x0c", "  "];
fn datum(r: &mut Rng, depth: usize, out: &mut String) {
    let k = if depth == 0 { 0 } else { r.below(10) };
    match k {
        0..=4 => out.push_str(ATOMS[r.below(ATOMS.len())]),
        5 | 6 => { let (o, c) = if r.below(4) == 0 { ("[", "]") } else { ("(", ")") }; out.push_str(o); let n = r.below(4);
                   for i in 0..n { if i > 0 { if r.below(12) > 0 { out.push_str(TRIVIA[r.below(TRIVIA.len())]); } } datum(r, depth - 1, out); }
                   if n > 0 && r.below(5) == 0 { out.push_str([" . ", " . ", " . ", " .", " .\n", " .;c\n", ". ", " .\t"][r.below(8)]); datum(r, depth - 1, out); } out.push_str(c); }
        7 => { out.push_str("#("); let n = r.below(3); for i in 0..n { if i > 0 { out.push(' '); } datum(r, depth - 1, out); } out.push(')'); }
        _ => { out.push_str(["'", "`", ",", ",@"][r.below(4)]); datum(r, depth - 1, out); }
    }
}
/// `n` texts: sequences of 1-3 datums with trivia; when `broken`, a third of them get one byte deleted / replaced / truncated
pub fn texts(seed: u64, n: usize, broken: bool) -> Vec<String> {
    let mut r = Rng::new(seed);
    let mut out = vec![];
    for i in 0..n {
        let mut s = String::new();
        for j in 0..(1 + r.below(3)) { if j > 0 || r.below(3) == 0 { s.push_str(TRIVIA[r.below(TRIVIA.len())]); } datum(&mut r, 3, &mut s); }
        if r.below(4) == 0 { s.push_str(TRIVIA[r.below(TRIVIA.len())]); }
        if broken && i % 3 == 0 && !s.is_empty() {
            let mut b = s.into_bytes();
            let at = r.below(b.len());
            match r.below(3) { 0 => { b.remove(at); } 1 => { b[at] = b")(]\"#.;'\\ "[r.below(10)]; } _ => { b.truncate(at); } }
            s = String::from_utf8_lossy(&b).into_owned();
        }
        out.push(s);
    }
    out
}
/// parse "... thorough:<seed>" out of the obligation string handed to `cases`
pub fn thorough_seed(ob: &str) -> Option<u64> { ob.split_whitespace().find_map(|w| w.strip_prefix("thorough:").or_else(|| w.strip_prefix("quick:"))).and_then(|s| s.parse().ok()) }
/// how many random texts: the full count in the thorough tier, a quarter in the quick tier
/// number of seeded random items: the quick tier takes a quarter, the thorough tier twenty times the nominal count (the families are cheap: all of them together run in about a second at the nominal count)
pub fn scale(ob: &str, n: usize) -> usize { if ob.contains("thorough:") { n * 20 } else { n / 4 } }
