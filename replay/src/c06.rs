//! C06 witness family: the same bytes through &str, &[u8] and io::Read (chunked, with Interrupted results, with an injected
//! hard error) on the real parser.
use crate::Family;
use lexpr::parse::{self, Options};
use std::io::{self, Read};

pub fn family() -> Family {
    Family { name: "c06", cases, check }
}

fn corpus() -> Vec<&'static str> {
    vec!["\u{feff}(a b)", "\u{feff}x", "(a \u{feff} b)", "\u{feff}", "foo", "foo#bar", "(say\"hi\")", "(a#b c)", "foo ; c", "; c\nfoo", "(a ; c\n b)", "(a b . c)", "#(1 2 3)", "#u8(1 2 255)", "\"a\\x41;b\\n\"",
         "\"line\\\n   cont\"", "#\\x41 #\\space", "12 -7 1.5e3 #xff", "#:key :k k:", "'(a `b ,c ,@d)", "[a b]", "nil t #nil #t #f", "(a . (b . (c)))",
         "\"\u{3bb}x\"", "\u{3bb}sym", "?a ?\\C-a", "\"\\u03bb\\x41\"", "(1 (2 (3 (4))))", "a\rb\x0cc", "#!fold-case x", "|a b|", "(a .b)", "(a .;c\n)", "(a .;", "(a .[b])", "(a .]", "(.;c\n a)", "(a +;c\n)", "(a -[b])", "1+ -", "(",
         "\"abc", "#\\", "#(1 2", "(a . )", ")", "#u8(300)", "1e", "#x", "a)b",
         "\"\u{e9}\\x01\"", "\"\u{e9}\\xff\"", "\"\\x01\u{e9}\"", "\"\u{e9}\\001\"", "\"a\u{e9}\\nb\"", "\"\\u00e9\\xff\"", "\"\u{e9}\\x01\u{e9}\"", "\"\\351\u{e9}\"", "\"\u{e9}\\^A\"", "\"\\M-a \u{e9}\"", "\"\u{3bb}\\n\"", "\"\u{3bb}\\x41\"", "(\"\u{1f600}\\101\" \"\\x80\")",
         "#\\newline #\\tab #\\backspace #\\nul #\\delete #\\alarm #\\return #\\escape", "#\\tab", "#\\\u{3bb} ?\u{3bb}", "\u{e9}t\u{e9} (\u{1f600})",
         "(18446744073709551616)", "184467440737095516160 x", "18446744073709551616.5", "#xFFFFFFFFFFFFFFFFF y", "(1 99999999999999999999999e3 2)", "#:foo", "(#:k :k k:)", "1e-5 2.5e+3", "(1E+2 -7e-1)", "#d1e+2", "1.5e-3x", "?a", "#(#:a)", "-18446744073709551617", "(123456789012345678901234567890 . a)"]
}

struct Sched { data: Vec<u8>, pos: usize, chunk: usize, interrupt_every: usize, calls: usize, fail_at: Option<usize>, fail_kind: io::ErrorKind, once: bool }
impl Read for Sched {
    fn read(&mut self, buf: &mut [u8]) -> io::Result<usize> {
        self.calls += 1;
        if self.interrupt_every > 0 && self.calls % self.interrupt_every == 0 { return Err(io::Error::new(io::ErrorKind::Interrupted, "again")); }
        // `once`: the stream fails a single time at offset k and then goes on delivering (a failure that is not sticky)
        if let Some(k) = self.fail_at { if self.pos >= k { if self.once { self.fail_at = None; } return Err(io::Error::new(self.fail_kind, "injected")); } }
        let mut n = self.chunk.min(buf.len()).min(self.data.len() - self.pos);
        if let Some(k) = self.fail_at { n = n.min(k - self.pos); }
        buf[..n].copy_from_slice(&self.data[self.pos..self.pos + n]);
        self.pos += n;
        Ok(n)
    }
}

fn show(r: &Result<Vec<lexpr::Value>, parse::Error>) -> String {
    match r {
        Ok(v) => format!("Ok({})", v.iter().map(|x| x.to_string()).collect::<Vec<_>>().join(" ")),
        Err(e) => { let s = e.to_string(); let kind = s.split(" at line").next().unwrap_or("").to_string(); format!("Err({:?}: {})", e.classify(), kind) }
    }
}
fn all<'de, R: parse::Read<'de>>(mut p: parse::Parser<R>) -> Result<Vec<lexpr::Value>, parse::Error> {
    let mut out = vec![];
    loop {
        match p.next_value() { Ok(Some(v)) => out.push(v), Ok(None) => return Ok(out), Err(e) => return Err(e) }
        if out.len() > 10_000 { return Ok(out); }
    }
}

fn opts(i: usize) -> Options { if i == 0 { Options::default() } else { Options::elisp() } }

fn cases(ob: &str) -> Vec<String> {
    let mut out = vec![];
    if let Some(seed) = crate::gen::thorough_seed(ob) { for t in crate::gen::texts(seed ^ 6, crate::gen::scale(ob, 200), true) { for oi in 0..2 { out.push(format!("samex:{}:{}", crate::hex(t.as_bytes()), oi)); out.push(format!("failx:{}:{}", crate::hex(t.as_bytes()), oi)); } } }
    if cfg!(feature = "with-serde") { out.push("serde:0:0".into()); }
    for (ci, _) in corpus().iter().enumerate() {
        for oi in 0..2 {
            out.push(format!("same:{}:{}", ci, oi));
            out.push(format!("fail:{}:{}", ci, oi));
        }
    }
    out
}

/// the serde companion crate's reading entry points present a read failure as an I/O-category error carrying it, a truncated text as EOF
#[cfg(feature = "with-serde")]
fn serde_case() -> Option<String> {
    use serde_lexpr::error::Category;
    for text in ["(1 2 3)", "  (10 20 30 40)", "(1 2 ; c\n 3)"] {
        for k in 0..text.len() {
            for kind in [io::ErrorKind::ConnectionReset, io::ErrorKind::UnexpectedEof, io::ErrorKind::Other] {
                let rd = Sched { data: text.as_bytes().to_vec(), pos: 0, chunk: 2, interrupt_every: 3, calls: 0, fail_at: Some(k), fail_kind: kind, once: false };
                match serde_lexpr::from_reader::<Vec<u32>>(rd) {
                    Ok(v) => return Some(format!("serde_lexpr::from_reader on {:?} with a read error at offset {}: Ok({:?})", text, k, v)),
                    Err(e) => {
                        if e.classify() != Category::Io { return Some(format!("serde_lexpr::from_reader on {:?} with a read error of kind {:?} at offset {}: category {:?} ({})", text, kind, k, e.classify(), e)); }
                        let got = io::Error::from(e).kind();
                        if got != kind { return Some(format!("serde_lexpr::from_reader on {:?} with a read error of kind {:?} at offset {}: converts to io::Error of kind {:?}", text, kind, k, got)); }
                    }
                }
            }
            match serde_lexpr::from_reader::<Vec<u32>>(&text.as_bytes()[..k]) {
                Err(e) if e.classify() == Category::Eof => {}
                Ok(_) if k == 0 => {}
                other => if !text[..k].trim().is_empty() { return Some(format!("serde_lexpr::from_reader on the truncated text {:?}: {:?}", &text[..k], other.map_err(|e| (e.classify(), e.to_string())))); },
            }
        }
        for r in [serde_lexpr::from_reader::<Vec<u32>>(text.as_bytes()).ok(), serde_lexpr::from_str::<Vec<u32>>(text).ok(), serde_lexpr::from_slice::<Vec<u32>>(text.as_bytes()).ok()] {
            if r.is_none() { return Some(format!("serde_lexpr reading {:?} fails", text)); }
        }
    }
    match serde_lexpr::from_str::<Vec<u32>>("(1 2") { Err(e) if e.classify() == Category::Eof => {}, o => return Some(format!("serde_lexpr::from_str(\"(1 2\"): {:?}", o.map_err(|e| e.classify()))) }
    match serde_lexpr::from_str::<Vec<u32>>("(1 2))") { Err(e) if e.classify() == Category::Syntax => {}, o => return Some(format!("serde_lexpr::from_str(\"(1 2))\"): {:?}", o.map_err(|e| e.classify()))) }
    match serde_lexpr::from_str::<Vec<u32>>("(1 a)") { Err(e) if e.classify() == Category::Data => {}, o => return Some(format!("serde_lexpr::from_str(\"(1 a)\"): {:?}", o.map_err(|e| e.classify()))) }
    None
}
#[cfg(not(feature = "with-serde"))]
fn serde_case() -> Option<String> { None }

fn check(case: &str) -> Option<String> {
    if case.starts_with("serde:") { return serde_case(); }
    let p: Vec<&str> = case.split(':').collect();
    let owned: String;
    let text: &str = if p[0].ends_with('x') { owned = String::from_utf8(crate::unhex(p.get(1)?)).ok()?; &owned } else { *corpus().get(p.get(1)?.parse::<usize>().ok()?)? };
    let oi = p.get(2)?.parse::<usize>().ok()?;
    let full = show(&all(parse::Parser::from_str_custom(text, opts(oi))));
    match p[0] {
        "same" | "samex" => {
            let sl = show(&all(parse::Parser::from_slice_custom(text.as_bytes(), opts(oi))));
            if sl != full { return Some(format!("{:?}: str gives {}, slice gives {}", text, full, sl)); }
            // the one-shot entry points and the parser constructors without explicit options, per source kind
            let one = |r: Result<lexpr::Value, parse::Error>| match r { Ok(v) => format!("Ok({})", v), Err(e) => format!("Err({:?})", e.classify()) };
            let oned = |r: Result<lexpr::datum::Datum, parse::Error>| match r { Ok(d) => format!("Ok({})", d.value()), Err(e) => format!("Err({:?})", e.classify()) };
            let b = text.as_bytes();
            let groups: Vec<(&str, Vec<String>)> = if oi == 0 { vec![
                ("from_str / from_slice / from_reader / FromStr", vec![one(lexpr::from_str(text)), one(lexpr::from_slice(b)), one(lexpr::from_reader(b)), one(text.parse::<lexpr::Value>())]),
                ("datum::from_str / from_slice / from_reader", vec![oned(lexpr::datum::from_str(text)), oned(lexpr::datum::from_slice(b)), oned(lexpr::datum::from_reader(b))]),
                ("Parser::from_str / from_slice / from_reader", vec![show(&all(parse::Parser::from_str(text))), show(&all(parse::Parser::from_slice(b))), show(&all(parse::Parser::from_reader(b)))]),
                ("from_str_custom(default) / from_str", vec![one(lexpr::from_str_custom(text, Options::default())), one(lexpr::from_str(text))]),
            ] } else { vec![
                ("from_str_elisp / from_slice_elisp / from_reader_elisp", vec![one(lexpr::parse::from_str_elisp(text)), one(lexpr::parse::from_slice_elisp(b)), one(lexpr::parse::from_reader_elisp(b))]),
                ("datum::from_str_elisp / from_slice_elisp / from_reader_elisp", vec![oned(lexpr::datum::from_str_elisp(text)), oned(lexpr::datum::from_slice_elisp(b)), oned(lexpr::datum::from_reader_elisp(b))]),
                ("from_str_custom(elisp) / from_str_elisp", vec![one(lexpr::from_str_custom(text, Options::elisp())), one(lexpr::parse::from_str_elisp(text))]),
            ] };
            for (name, rs) in groups { if rs.iter().any(|x| x != &rs[0]) { return Some(format!("{:?}: the entry points {} give {:?}", text, name, rs)); } }
            for (chunk, intr) in [(1usize, 0usize), (1, 2), (2, 3), (3, 0), (64, 0)] {
                let rd = Sched { data: text.as_bytes().to_vec(), pos: 0, chunk, interrupt_every: intr, calls: 0, fail_at: None, fail_kind: io::ErrorKind::Other, once: false };
                let io = show(&all(parse::Parser::from_reader_custom(rd, opts(oi))));
                if io != full { return Some(format!("{:?}: str gives {}, reader (chunk {}, Interrupted every {}) gives {}", text, full, chunk, intr, io)); }
            }
            None
        }
        "fail" | "failx" => {
            for k in 0..=text.len() {
                for (chunk, intr, kind) in [(1usize, 0usize, io::ErrorKind::ConnectionReset), (2, 3, io::ErrorKind::UnexpectedEof), (1, 0, io::ErrorKind::UnexpectedEof), (3, 0, io::ErrorKind::InvalidData), (2, 0, io::ErrorKind::WouldBlock), (1, 0, io::ErrorKind::TimedOut), (2, 0, io::ErrorKind::Other)] {
                    let rd = Sched { data: text.as_bytes().to_vec(), pos: 0, chunk, interrupt_every: intr, calls: 0, fail_at: Some(k), fail_kind: kind, once: false };
                    let r = all(parse::Parser::from_reader_custom(rd, opts(oi)));
                    if let Err(e) = &r { if e.classify() == parse::error::Category::Io { let rd2 = Sched { data: text.as_bytes().to_vec(), pos: 0, chunk, interrupt_every: intr, calls: 0, fail_at: Some(k), fail_kind: kind, once: false };
                        if let Err(e2) = all(parse::Parser::from_reader_custom(rd2, opts(oi))) { let got = io::Error::from(e2).kind(); if got != kind { return Some(format!("{:?} with a read error of kind {:?} at offset {}: reported as io::Error of kind {:?}", text, kind, k, got)); } } } }
                    // the same failure, reported once only (the stream then goes on): the first item that was being read when it happened must still fail with it
                    if k < text.len() {
                        let rd3 = Sched { data: text.as_bytes().to_vec(), pos: 0, chunk, interrupt_every: intr, calls: 0, fail_at: Some(k), fail_kind: kind, once: true };
                        let mut p3 = parse::Parser::from_reader_custom(rd3, opts(oi));
                        let mut p0 = parse::Parser::from_str_custom(text, opts(oi));
                        loop {
                            let (a, b) = (p3.next_value(), p0.next_value());
                            match (&a, &b) {
                                (Err(e), _) if e.classify() == parse::error::Category::Io => break,
                                (Ok(x), Ok(y)) if x == y => { if x.is_none() { return Some(format!("{:?} with a single read error at offset {} (chunk {}): every item was read as if nothing had happened", text, k, chunk)); } }
                                (Err(x), Err(y)) if x.classify() == y.classify() && x.to_string().split(" at line").next() == y.to_string().split(" at line").next() => break,
                                _ => return Some(format!("{:?} with a single read error of kind {:?} at offset {} (chunk {}): next_value gives {:?}, the text alone gives {:?}", text, kind, k, chunk, a.map_err(|e| e.to_string()), b.map_err(|e| e.to_string()))),
                            }
                        }
                    }
                    let ok = match &r { Err(e) => e.classify() == parse::error::Category::Io || show(&r) == full, Ok(_) => show(&r) == full };
                    let is_io = matches!(&r, Err(e) if e.classify() == parse::error::Category::Io);
                    // a stream that fails before end of input can never look like a complete, successful read of all items
                    if !ok || (!is_io && k < text.len() && full.starts_with("Ok")) {
                        return Some(format!("{:?} with a hard read error at offset {} (chunk {}): {} (without the error: {})", text, k, chunk, show(&r), full));
                    }
                }
            }
            None
        }
        _ => None,
    }
}
