//! C14 / C18 / C04 witness families: serde_lexpr::to_value / from_value on the real crates.
use crate::Family;
use lexpr::Value;
use serde_derive::{Deserialize, Serialize};
use serde_lexpr::{from_value, to_value};
use std::collections::BTreeMap;

pub fn family() -> Family { Family { name: "c14", cases: cases14, check: check14 } }
pub fn family18() -> Family { Family { name: "c18", cases: cases18, check: check18 } }

#[derive(Serialize, Deserialize, PartialEq, Debug, Clone)]
struct Unit;
#[derive(Serialize, Deserialize, PartialEq, Debug, Clone)]
struct New(i32);
#[derive(Serialize, Deserialize, PartialEq, Debug, Clone)]
struct Tup(i32, String);
#[derive(Serialize, Deserialize, PartialEq, Debug, Clone)]
struct St { a: i32, b: Option<String> }
#[derive(Serialize, Deserialize, PartialEq, Debug, Clone)]
struct Sv { title: String, tags: Vec<u32>, m: BTreeMap<String, i32>, u: (), o: Option<Vec<u8>> }
#[derive(Serialize, Deserialize, PartialEq, Debug, Clone)]
struct Rf { right: i32, rows: u8, r#ref: bool, a_r: i32 }
#[derive(Serialize, Deserialize, PartialEq, Debug, Clone)]
enum Ev { Rect { right: i32, radius: i32 } }
#[derive(Serialize, Deserialize, PartialEq, Debug, Clone)]
enum E { U, N(i32), T(i32, i32), S { x: i32 } }
// (untagged enums are a serde representation attribute, not one of the data-model categories the crate documents: they are outside the
// type family C18 quantifies over - `#nil` read as an untagged unit payload does not read back from its serialization `()`)

fn sym(s: &str) -> Value { Value::symbol(s) }
fn list(v: Vec<Value>) -> Value { Value::list(v) }

fn shapes() -> Vec<(&'static str, Value, Value)> {
    let mut m = BTreeMap::new();
    m.insert("k".to_string(), 1i32);
    vec![
        ("seq", to_value(vec![1i32, 2]).unwrap(), list(vec![Value::from(1), Value::from(2)])),
        ("empty seq", to_value(Vec::<i32>::new()).unwrap(), Value::Null),
        ("tuple", to_value((1i32, "a")).unwrap(), Value::Vector(vec![Value::from(1), Value::from("a")].into())),
        ("tuple struct", to_value(Tup(1, "a".into())).unwrap(), Value::Vector(vec![Value::from(1), Value::from("a")].into())),
        ("map", to_value(&m).unwrap(), list(vec![Value::cons(Value::from("k"), Value::from(1))])),
        ("struct", to_value(St { a: 1, b: None }).unwrap(), list(vec![Value::cons(sym("a"), Value::from(1)), Value::cons(sym("b"), Value::Null)])),
        ("none", to_value(None::<i32>).unwrap(), Value::Null),
        ("some", to_value(Some(5i32)).unwrap(), list(vec![Value::from(5)])),
        ("unit", to_value(()).unwrap(), Value::Null),
        ("unit struct", to_value(Unit).unwrap(), Value::Null),
        ("newtype struct", to_value(New(7)).unwrap(), Value::from(7)),
        ("unit variant", to_value(E::U).unwrap(), sym("U")),
        ("newtype variant", to_value(E::N(3)).unwrap(), Value::cons(sym("N"), Value::from(3))),
        ("tuple variant", to_value(E::T(1, 2)).unwrap(), Value::cons(sym("T"), list(vec![Value::from(1), Value::from(2)]))),
        ("struct variant", to_value(E::S { x: 9 }).unwrap(), Value::cons(sym("S"), list(vec![Value::cons(sym("x"), Value::from(9))]))),
        ("struct with r-fields", to_value(Rf { right: 1, rows: 2, r#ref: true, a_r: 3 }).unwrap(), list(vec![Value::cons(sym("right"), Value::from(1)), Value::cons(sym("rows"), Value::from(2)), Value::cons(sym("ref"), Value::from(true)), Value::cons(sym("a_r"), Value::from(3))])),
        ("struct variant with r-fields", to_value(Ev::Rect { right: 1, radius: 2 }).unwrap(), Value::cons(sym("Rect"), list(vec![Value::cons(sym("right"), Value::from(1)), Value::cons(sym("radius"), Value::from(2))]))),
        ("char", to_value('c').unwrap(), Value::Char('c')),
        ("u8", to_value(200u8).unwrap(), Value::from(200)),
        ("i8", to_value(-5i8).unwrap(), Value::from(-5)),
        ("u64 max", to_value(u64::MAX).unwrap(), Value::from(u64::MAX)),
        ("i64 min", to_value(i64::MIN).unwrap(), Value::from(i64::MIN)),
        ("u32", to_value(4_000_000_000u32).unwrap(), Value::from(4_000_000_000u64)),
        ("str", to_value("s").unwrap(), Value::from("s")),
        ("nested", to_value(vec![Some(E::N(1)), None]).unwrap(), list(vec![list(vec![Value::cons(sym("N"), Value::from(1))]), Value::Null])),
    ]
}

fn cases14(_ob: &str) -> Vec<String> {
    let mut out: Vec<String> = (0..shapes().len()).map(|i| format!("shape:{}", i)).collect();
    for i in 0..32 { out.push(format!("alt:{}", i)); }
    out
}
fn data_err<T: std::fmt::Debug>(r: Result<T, serde_lexpr::Error>, what: &str) -> Option<String> {
    match r { Ok(x) => Some(format!("{} accepted as {:?}", what, x)), Err(e) => if e.classify() == serde_lexpr::error::Category::Data { None } else { Some(format!("{}: error category {:?}, not Data", what, e.classify())) } }
}
fn check14(case: &str) -> Option<String> {
    let c = case.to_string();
    match std::panic::catch_unwind(move || check14_inner(&c)) { Ok(r) => r, Err(_) => Some(format!("{}: panic", case)) }
}
fn check14_inner(case: &str) -> Option<String> {
    let p: Vec<&str> = case.split(':').collect();
    let i = p.get(1)?.parse::<usize>().ok()?;
    match p[0] {
        "shape" => { let (name, got, want) = shapes().into_iter().nth(i)?; if got != want { Some(format!("{} serializes as {}, documented {}", name, got, want)) } else { None } }
        "alt" => match i {
            0 => { let v = Value::Vector(vec![Value::from(1), Value::from(2)].into()); match from_value::<Vec<i32>>(&v) { Ok(x) if x == vec![1, 2] => None, r => Some(format!("vector as sequence: {:?}", r.map_err(|e| e.to_string()))) } }
            1 => { let v = list(vec![Value::from(1), Value::from("a")]); match from_value::<(i32, String)>(&v) { Ok(x) if x == (1, "a".to_string()) => None, r => Some(format!("proper list as tuple: {:?}", r.map_err(|e| e.to_string()))) } }
            2 => data_err(from_value::<Vec<i32>>(&Value::append(vec![Value::from(1)], Value::from(2))), "improper list as sequence"),
            3 => data_err(from_value::<(i32, i32)>(&Value::append(vec![Value::from(1)], Value::from(2))), "improper list as tuple"),
            4 => data_err(from_value::<Vec<i32>>(&Value::from("str")), "string as sequence"),
            5 => data_err(from_value::<(i32, i32)>(&Value::append(vec![Value::from(1), Value::from(2)], Value::from(3))), "improper list (1 2 . 3) as 2-tuple"),
            7 => data_err(from_value::<Vec<i32>>(&Value::Nil), "#nil as sequence"),
            8 => data_err(from_value::<Vec<i32>>(&Value::append(vec![Value::from(1), Value::from(2)], Value::Nil)), "(1 2 . #nil) as sequence"),
            9 => data_err(from_value::<(i32, i32)>(&Value::append(vec![Value::from(1), Value::from(2)], Value::Nil)), "(1 2 . #nil) as tuple"),
            6 => data_err(from_value::<Tup>(&Value::append(vec![Value::from(1), Value::from("a")], Value::from(3))), "improper list as tuple struct"),
            17 => { let v = Value::Vector(vec![].into()); match from_value::<Vec<i32>>(&v) { Ok(x) if x.is_empty() => None, r => Some(format!("empty vector #() as sequence: {:?}", r.map_err(|e| e.to_string()))) } }
            18 => { match from_value::<Vec<i32>>(&Value::Null) { Ok(x) if x.is_empty() => None, r => Some(format!("empty list as sequence: {:?}", r.map_err(|e| e.to_string()))) } }
            19 => { let v = list(vec![list(vec![Value::from(1)]), Value::Vector(vec![].into()), Value::Null]); match from_value::<Vec<Vec<i32>>>(&v) { Ok(x) if x == vec![vec![1], vec![], vec![]] => None, r => Some(format!("((1) #() ()) as Vec<Vec<i32>>: {:?}", r.map_err(|e| e.to_string()))) } }
            20 => { let v = Value::Vector(vec![Value::from(1), Value::from("a")].into()); match from_value::<Tup>(&v) { Ok(_) => None, r => Some(format!("vector as tuple struct: {:?}", r.map_err(|e| e.to_string()))) } }
            21 => { let v = list(vec![Value::from(1), Value::from("a")]); match from_value::<Tup>(&v) { Ok(_) => None, r => Some(format!("proper list as tuple struct: {:?}", r.map_err(|e| e.to_string()))) } }
            22 => data_err(from_value::<Option<i32>>(&list(vec![Value::from(1), Value::from(2)])), "(1 2) as Option<i32>"),
            23 => data_err(from_value::<Option<Option<i32>>>(&list(vec![Value::Null, Value::from(5)])), "(() 5) as Option<Option<i32>>"),
            24 => { match from_value::<Option<i32>>(&list(vec![Value::from(1)])) { Ok(Some(1)) => None, r => Some(format!("(1) as Option<i32>: {:?}", r.map_err(|e| e.to_string()))) } }
            25 => { match to_value(&0i32) { Ok(v) if v == Value::from(0u64) && v.as_u64() == Some(0) && v == lexpr::from_str("0").unwrap() => None, r => Some(format!("0i32 serializes as {:?}, not the integer 0 the reader yields", r.map_err(|e| e.to_string()))) } }
            26 => data_err(from_value::<St>(&list(vec![Value::cons(Value::from("a"), Value::from(1))])), "struct field named by a string"),
            27 => data_err(from_value::<St>(&list(vec![Value::cons(Value::keyword("a"), Value::from(1))])), "struct field named by a keyword"),
            28 => data_err(from_value::<E>(&list(vec![Value::from("U")])), "enum variant named by a string inside a list"),
            29 => data_err(from_value::<E>(&Value::cons(Value::keyword("N"), Value::from(1))), "enum variant named by a keyword"),
            30 => data_err(from_value::<BTreeMap<String, i32>>(&Value::append(vec![Value::cons(Value::from("a"), Value::from(1))], Value::from(5))), "alist with an improper tail as map"),
            31 => data_err(from_value::<St>(&Value::append(vec![Value::cons(sym("a"), Value::from(1))], sym("end"))), "alist with an improper tail as struct"),
            11 => data_err(from_value::<Vec<u64>>(&Value::from(u64::MAX)), "the integer 2^64-1 as sequence"),
            12 => data_err(from_value::<Vec<u64>>(&Value::append(vec![Value::from(1), Value::from(2)], Value::from(u64::MAX))), "(1 2 . 18446744073709551615) as sequence"),
            13 => data_err(from_value::<(u64, u64)>(&Value::from(1u64 << 63)), "the integer 2^63 as tuple"),
            14 => data_err(from_value::<Vec<f64>>(&Value::from(1.5)), "a float as sequence"),
            15 => data_err(from_value::<(i32, i32)>(&Value::append(vec![Value::from(1), Value::from(2)], Value::from(-1.5e300))), "(1 2 . -1.5e300) as tuple"),
            16 => data_err(from_value::<Vec<i64>>(&Value::from(i64::MIN)), "the integer -2^63 as sequence"),
            _ => data_err(from_value::<(i32, i32)>(&sym("x")), "symbol as tuple"),
        },
        _ => None,
    }
}

fn corpus() -> Vec<Value> {
    let atoms = vec![Value::Nil, Value::Null, Value::from(true), Value::from(1), Value::from(-1), Value::from(300), Value::from(u64::MAX), Value::from(1.5), Value::from(1e300), Value::from(1e39), Value::from(-4e38), Value::from('c'), Value::from("s"), sym("U"), sym("N"), sym("x"),
                     Value::keyword("k"), Value::from(vec![1u8, 2].into_boxed_slice()),
                     Value::from(""), Value::from("1"), Value::from("-7"), Value::from("1.5"), Value::from("("), Value::from(")"), Value::from("1 2"), Value::from("#\\"), Value::from("\"x"), Value::from("ab"), Value::from("\u{3bb}"), Value::from("#t"), Value::from("()"),
                     Value::from(0), Value::from(255), Value::from(256), Value::from(1u64 << 63), Value::from(i64::MIN), Value::from(i64::MAX), Value::from(u32::MAX), Value::from(1u64 << 31), Value::from(i32::MIN), Value::from(65535), Value::from(65536), Value::from(-32769), Value::from(128), Value::from(-129), Value::from(0.0), Value::from(-0.5),
                     Value::from('\u{3bb}'), Value::from('\u{0}'), sym(""), Value::keyword(""), Value::from(Vec::<u8>::new().into_boxed_slice()), Value::from(false)];
    let mut out = atoms.clone();
    // long strings with multi-byte characters at every offset around 32 / 48 / 64 / 128 (messages that quote the offending value must not cut inside a character)
    for pad in [30usize, 31, 45, 46, 47, 48, 62, 63, 64, 126, 127, 255] { for ch in ["\u{e9}", "\u{20ac}", "\u{1f600}"] { out.push(Value::from(format!("{}{}{}", "a".repeat(pad), ch.repeat(3), "z".repeat(40)))); } }
    out.push(Value::symbol(format!("{}\u{e9}\u{e9}", "s".repeat(47)))); out.push(Value::keyword(format!("{}\u{20ac}", "k".repeat(47))));
    // structs whose fields hold empty collections / unit (the serializer writes them as (name) - an entry with an empty cdr)
    let f = |n: &str, d: Value| Value::cons(sym(n), d);
    out.push(list(vec![f("title", Value::from("hello")), f("tags", Value::Null), f("m", Value::Null), f("u", Value::Null), f("o", Value::Null)]));
    out.push(list(vec![f("title", Value::from("")), f("tags", list(vec![Value::from(1)])), f("m", list(vec![Value::cons(Value::from("k"), Value::from(1))])), f("u", Value::Null), f("o", list(vec![Value::Null]))]));
    out.push(list(vec![f("title", Value::from("x")), f("tags", Value::Vector(vec![].into())), f("m", Value::Null), f("u", Value::Nil), f("o", list(vec![list(vec![Value::from(1)])]))]));
    out.push(Value::Vector(vec![Value::from(7)].into()));
    out.push(Value::Vector(vec![].into()));
    out.push(Value::append(vec![Value::from(1), Value::from(2)], Value::from(3)));
    for a in &atoms { out.push(list(vec![a.clone()])); out.push(Value::cons(a.clone(), Value::from(2))); out.push(Value::Vector(vec![a.clone(), Value::from(2)].into())); out.push(list(vec![a.clone(), Value::from(2)])); }
    for a in [sym("N"), sym("T"), sym("S"), sym("U"), sym("a"), Value::from("k")] {
        out.push(Value::cons(a.clone(), Value::from(3)));
        out.push(Value::cons(a.clone(), list(vec![Value::from(1), Value::from(2)])));
        out.push(Value::cons(a.clone(), list(vec![Value::cons(sym("x"), Value::from(9))])));
        out.push(list(vec![Value::cons(a.clone(), Value::from(1))]));
        out.push(list(vec![Value::cons(a.clone(), Value::from(1)), Value::cons(sym("b"), Value::Null)]));
        out.push(list(vec![Value::cons(a.clone(), Value::from(1)), Value::from(5)]));
        out.push(Value::append(vec![Value::cons(a.clone(), Value::from(1))], Value::from(5)));
    }
    out
}
// types that deserialize through deserialize_any (serde's untagged enums buffer the self-describing reading of the value first)
#[derive(Serialize, Deserialize, PartialEq, Debug, Clone)]
#[serde(untagged)]
enum UA { Items(Vec<u32>), Name(String), Flag(bool), N(i64), F(f64), Unit, Pair(u8, String), S { a: u32 } }
#[derive(Serialize, Deserialize, PartialEq, Debug, Clone)]
#[serde(untagged)]
enum UB { O(Option<u32>), L(Vec<Option<u32>>), C(char) }
fn any_corpus() -> Vec<Value> {
    let n = |i: i64| Value::from(i);
    vec![Value::Null, Value::Nil, list(vec![n(1), n(2), n(3)]), Value::Vector(vec![n(1), n(2), n(3)].into()), Value::Vector(vec![].into()), Value::from("x"), Value::from(true), Value::from(false), n(5), n(-5), Value::from(1.5),
         list(vec![n(1), Value::from("a")]), Value::Vector(vec![n(1), Value::from("a")].into()), list(vec![Value::cons(sym("a"), n(1))]), list(vec![n(1)]), list(vec![Value::Nil]), list(vec![list(vec![n(1)])]), sym("a"), Value::keyword("k"),
         Value::from('c'), Value::from(vec![1u8, 2].into_boxed_slice()), Value::cons(n(1), n(2)), Value::append(vec![Value::cons(sym("a"), n(1))], n(3)), Value::Vector(vec![list(vec![n(1)]), Value::Null].into())]
}
fn cases18(_ob: &str) -> Vec<String> {
    let mut out: Vec<String> = (0..corpus().len()).map(|i| format!("de:{}", i)).collect();
    for i in 0..any_corpus().len() { out.push(format!("any:UA:{}", i)); out.push(format!("any:UB:{}", i)); }
    out
}

fn one<T>(v: &Value, ty: &str) -> Option<String> where T: serde::Serialize + for<'a> serde::Deserialize<'a> + PartialEq + std::fmt::Debug {
    match std::panic::catch_unwind(|| from_value::<T>(v)) {
        Err(_) => Some(format!("from_value::<{}>({}) panics", ty, v)),
        Ok(Err(e)) => if e.classify() != serde_lexpr::error::Category::Data { Some(format!("from_value::<{}>({}): error category {:?}, not Data", ty, v, e.classify())) } else { None },
        Ok(Ok(x)) => {
            let back = match to_value(&x) { Ok(b) => b, Err(e) => return Some(format!("{}: accepted {} as {:?} which does not serialize: {}", ty, v, x, e)) };
            match from_value::<T>(&back) { Ok(y) if y == x => None, r => Some(format!("{}: accepted {} as {:?}, which serializes to {} and reads back as {:?}", ty, v, x, back, r.map_err(|e| e.to_string()))) }
        }
    }
}
fn check18(case: &str) -> Option<String> {
    let p: Vec<&str> = case.split(':').collect();
    if p[0] == "any" {
        let v = any_corpus().into_iter().nth(p.get(2)?.parse::<usize>().ok()?)?;
        return if p[1] == "UA" { one::<UA>(&v, "untagged UA") } else { one::<UB>(&v, "untagged UB") };
    }
    let v = corpus().into_iter().nth(p.get(1)?.parse::<usize>().ok()?)?;
    None.or_else(|| one::<bool>(&v, "bool")).or_else(|| one::<i8>(&v, "i8")).or_else(|| one::<u8>(&v, "u8")).or_else(|| one::<i16>(&v, "i16")).or_else(|| one::<u16>(&v, "u16")).or_else(|| one::<i32>(&v, "i32")).or_else(|| one::<u32>(&v, "u32")).or_else(|| one::<usize>(&v, "usize")).or_else(|| one::<isize>(&v, "isize")).or_else(|| one::<i64>(&v, "i64"))
        .or_else(|| one::<Vec<u32>>(&v, "Vec<u32>")).or_else(|| one::<Option<u16>>(&v, "Option<u16>")).or_else(|| one::<(u32, i16)>(&v, "(u32, i16)")).or_else(|| one::<Option<Option<i32>>>(&v, "Option<Option<i32>>")).or_else(|| one::<BTreeMap<u32, i8>>(&v, "BTreeMap<u32, i8>")).or_else(|| one::<u64>(&v, "u64")).or_else(|| one::<f32>(&v, "f32")).or_else(|| one::<f64>(&v, "f64")).or_else(|| one::<Vec<f32>>(&v, "Vec<f32>"))
        .or_else(|| one::<char>(&v, "char")).or_else(|| one::<String>(&v, "String")).or_else(|| one::<Option<i32>>(&v, "Option<i32>")).or_else(|| one::<Vec<i32>>(&v, "Vec<i32>"))
        .or_else(|| one::<(i32, i32)>(&v, "(i32, i32)")).or_else(|| one::<BTreeMap<String, i32>>(&v, "BTreeMap<String, i32>")).or_else(|| one::<()>(&v, "()")).or_else(|| one::<Unit>(&v, "Unit"))
        .or_else(|| one::<Sv>(&v, "Sv")).or_else(|| one::<New>(&v, "New")).or_else(|| one::<Tup>(&v, "Tup")).or_else(|| one::<St>(&v, "St")).or_else(|| one::<E>(&v, "E")).or_else(|| one::<Vec<Option<E>>>(&v, "Vec<Option<E>>"))
}
