//! C03 witness family: totality of parsing (panics, aborts, unbounded recursion) on the real parser.
use crate::Family;
use lexpr::{parse, Parser};
use std::process::Command;

pub fn family() -> Family {
    Family { name: "c03", cases, check }
}

const HI_PREFIXES: [&[u8]; 34] = [b"#\\a", b"#\\space", b"#\\x41", b"#\\x", b"#\\", b"?a", b"?\\", b"?\\^", b"?\\x4", b"?\\N{U+4", b"a", b"abc", b":k", b"#:k", b"k:", b"1", b"1.", b"1e", b"1e+", b"-", b"+", b".", b"#x1", b"#", b"#t", b"#u8", b"#u8(1", b"(a .", b"(a . b", b"\"a", b"\"\\x4", b"\"\\", b"'", b",@"];

fn cases(ob: &str) -> Vec<String> {
    let mut out = vec![];
    if ob.contains("arith[") { return out; }   // integer-overflow obligations need inputs beyond what this family generates
    if !ob.contains("decreases") { out.push("leak:".into()); }
    for (name, unit) in [("quote", "'"), ("quasi", "`"), ("unquote", ","), ("splice", ",@"), ("mixed", "'("), ("paren", "("), ("bracket", "["), ("vec", "#("), ("dotted", "(a . "), ("dottedvec", "(a . #("), ("dottedquote", "(a . '"), ("bracketdot", "[a . ")] {
        out.push(format!("deep:{}:{}:200000", name, crate::hex(unit.as_bytes())));
    }
    out.push("nest100:".into());
    // every byte >= 0x80 (and every ASCII control byte) directly after each kind of token start / complete token
    for (i, _) in HI_PREFIXES.iter().enumerate() { out.push(format!("hibyte:{}", i)); }
    out.push("leakq:0".into()); out.push("leakq:1".into());
    if let Some(seed) = crate::gen::thorough_seed(ob) { for t in crate::gen::texts(seed, crate::gen::scale(ob, 600), true) { out.push(format!("bytes:{}", crate::hex(t.as_bytes()))); } }
    // numeric edge cases around the float scaling table (exponent magnitudes 307..311, 616..618) and digit-count limits
    for e in [307i32, 308, 309, 310, 311, 616, 617, 618, 1000] { for m in ["1", "0", "2.5", "123456789012345678901234567890", "0.000001"] { for sg in ["", "-"] {
        out.push(format!("bytes:{}", crate::hex(format!("{}e{}{}", m, sg, e).as_bytes())));
        out.push(format!("bytes:{}", crate::hex(format!("(1 #u8({}e{}{}) . '#d{}e{}{})", m, sg, e, m, sg, e).as_bytes())));
    } } }
    // digit runs around and beyond every integer width, alone and inside tokens (every option set: leading-digit symbols re-read the token)
    for d in ["18446744073709551615", "18446744073709551616", "99999999999999999999", "340282366920938463463374607431768211456", "9223372036854775808", "4294967296", "00000000000000000000000001"] {
        for (pre, post) in [("", ""), ("-", ""), ("+", ""), ("", "x"), ("", "."), ("", "e"), ("", "e+"), ("#x", ""), ("#b", ""), ("#u8(", ")"), ("(a . ", ")"), ("", "/2"), ("", ":"), ("?", ""), ("#\\x", "")] {
            out.push(format!("bytes:{}", crate::hex(format!("{}{}{}", pre, d, post).as_bytes())));
        }
    }
    out.push(format!("bytes:{}", crate::hex("9".repeat(400).as_bytes()))); out.push(format!("bytes:{}", crate::hex(format!("1.{}", "9".repeat(400)).as_bytes()))); out.push(format!("bytes:{}", crate::hex(format!("1e{}", "9".repeat(40)).as_bytes())));
    // long and odd character names, encoded surrogates / out-of-range scalars at token starts and in character literals
    for t in [&b"#\\backspacely"[..], b"#\\abcdefghijklmnopqrstuvwxyz", b"(#\\nullnullnull x)", b"#\\x41414141414141414141", b"?\\^abcdefghijkl", b"#\\spacespacespace #\\a",
              b"\xed\xa0\x80", b"#\\\xed\xa0\x80", b"#\\\xf4\x90\x80\x80", b"?\xf5\x80\x80\x80", b"(\xed\xbf\xbf)", b"?\\\xf4\x90\x80\x80", b"\xf7\xbf\xbf\xbf x", b"'\xed\xa0\x80", b"\xe0\x80\x80", b"\xc0\x80", b"#\\\xc1\xbf",
              b"3.14159265358979323846264338327950288", b"123456789012345678901234.5678", b"0.1234567890123456789012345", b"(1.00000000000000000000000000001e5 -99999999999999999999.99999999999999999999)", b"18446744073709551615.18446744073709551615e18446744073709551615", b"1e99999999999999999999", b"#d1.5e-99999999999",
              b"abcdefghijklmnopqrstuvwxyzabcdefghijklmnopqrstuvwxyz", b"#:abcdefghijklmnopqrstuvwxyz", b"\"\\x41414141414141;\"", b"#xFFFFFFFFFFFFFFFFFFFFFFFFFFFFFFFFFFFFFFFFe", b"#b1111111111111111111111111111111111111111111111111111111111111111111111"] {
        out.push(format!("bytes:{}", crate::hex(t)));
    }
    // short inputs over a token alphabet, all three sources, both dialects
    let alpha: Vec<&[u8]> = vec![b"(", b")", b"[", b"]", b"#", b"\\", b"\"", b"'", b",@", b".", b"+", b"-", b"1", b"e", b"x", b":", b"?", b";", b" ", b"\n", b"\xc3", b"\xa9", b"\xf0", b"u8", b"t", b"nil", b"|", b"%"];
    for a in &alpha { for b in &alpha { for c in &alpha {
        let mut v = a.to_vec(); v.extend_from_slice(b); v.extend_from_slice(c);
        out.push(format!("bytes:{}", crate::hex(&v)));
    } } }
    out
}

fn all_apis(bytes: &[u8]) {
    for opts in [parse::Options::default(), parse::Options::elisp(), parse::Options::new().with_racket_hash_percent_symbols(true).with_leading_digit_symbols(true).with_brackets(parse::Brackets::Vector)] {
        let _ = lexpr::from_slice_custom(bytes, opts);
        let _ = lexpr::from_reader_custom(bytes, opts);
        if let Ok(s) = std::str::from_utf8(bytes) { let _ = lexpr::from_str_custom(s, opts); let _ = lexpr::datum::from_str_custom(s, opts); }
        let mut p = Parser::from_slice_custom(bytes, opts);
        for _ in 0..8 { if let Ok(None) = p.next_value() { break; } }
        let mut p = Parser::from_slice_custom(bytes, opts);
        for _ in 0..8 { if let Ok(None) = p.next_datum() { break; } }
    }
}

fn check(case: &str) -> Option<String> {
    let p: Vec<&str> = case.split(':').collect();
    match p[0] {
        "bytes" => { all_apis(&crate::unhex(p[1])); None }
        "hibyte" => {
            let pre = HI_PREFIXES[p[1].parse::<usize>().ok()?];
            for b in (0x80u16..=0xff).chain(0u16..0x20).chain(0x7f..0x80) {
                for tail in [&b""[..], b" x", b"\xa9)", b"\""] {
                    let mut v = pre.to_vec(); v.push(b as u8); v.extend_from_slice(tail);
                    all_apis(&v);
                }
            }
            None
        }
        "nest100" => {
            for (o, c, n) in [("(", ")", 100usize), ("#(", ")", 100), ("'(", ")", 50), ("'", "", 100)] {
                let t = format!("{}{}{}", o.repeat(n), if c.is_empty() { "x" } else { "" }, c.repeat(n));
                if let Err(e) = lexpr::from_str(&t) { return Some(format!("100 levels of nesting through {:?} rejected: {}", o, e)); }
            }
            None
        }
        "leak" => {
            // one parser, iterated over input that exceeds the nesting limit again and again
            let input = "(".repeat(128 * 140);
            let mut parser = Parser::from_str(&input);
            for i in 0..200 {
                match parser.next_value() {
                    Ok(None) => break,
                    Ok(Some(_)) => return Some(format!("call #{} accepted input nested deeper than the limit", i)),
                    Err(e) => { if !format!("{}", e).contains("recursion limit") && !e.is_eof() { return Some(format!("call #{}: unexpected error {}", i, e)); } }
                }
            }
            None
        }
        "leakq" => {
            // one long-lived parser: failed items (inside quote shorthands, lists, vectors) must not use up the nesting budget - a
            // well-formed datum nested 100 levels is still accepted afterwards
            let datum = p[1] == "1";
            for bad in ["'#z ", "`#z ", ",@#z ", "(#z) ", "#(#z) ", "'(#z) ", "(a . #z) ", "''#z ", "[#z] "] {
                let text = format!("{}{}{}", bad.repeat(160), "(".repeat(100), ")".repeat(100));
                let mut parser = Parser::from_str(&text);
                let (mut last, mut ok) = (String::new(), false);
                for _ in 0..2000 {
                    let r = if datum { parser.next_datum().map(|o| o.map(|d| d.value().clone())) } else { parser.next_value() };
                    match r { Ok(Some(v)) => { if v.is_cons() { ok = true; break; } } Ok(None) => break, Err(e) => { last = e.to_string(); } }
                }
                if !ok { return Some(format!("after 160 failed items {:?} a well-formed datum nested 100 levels is no longer accepted by the same parser ({} API): last error {:?}", bad, if datum { "datum" } else { "value" }, last)); }
            }
            None
        }
        "deepchild" => {
            let unit = String::from_utf8(crate::unhex(p[1])).ok()?;
            let n: usize = p[2].parse().ok()?;
            let text = unit.repeat(n);
            let r = lexpr::from_str(&text);
            if r.is_ok() { println!("accepted"); }
            let mut pr = Parser::from_str(&text);
            let _ = pr.next_datum();
            None
        }
        "deep" => {
            let exe = std::env::current_exe().ok()?;
            let out = Command::new(exe).args(["run", "c03", &format!("deepchild:{}:{}", p[2], p[3])]).output().ok()?;
            if !out.status.success() && out.status.code() != Some(1) {
                return Some(format!("parsing {} repetitions of {:?} killed the process ({:?}): unbounded native recursion", p[3], String::from_utf8_lossy(&crate::unhex(p[2])), out.status));
            }
            if String::from_utf8_lossy(&out.stdout).contains("accepted") { return Some(format!("{} levels of {} nesting accepted", p[3], p[1])); }
            None
        }
        _ => None,
    }
}
