//! C05 witness family: numeric literals against an exact oracle (u128 for integers, std's correctly rounded
//! `str::parse::<f64>` for decimals).
use crate::Family;
use lexpr::Value;

pub fn family() -> Family {
    Family { name: "c05", cases, check }
}

fn cases(ob: &str) -> Vec<String> {
    let mut out: Vec<String> = vec![];
    // exponent forms without a fraction (ryu emits these), fractions, signs
    for l in ["1e21", "1E5", "5e-324", "1e0", "12e3", "-3e2", "+7E-2", "1.5e3", "0.25", "10.0", "1e22", "123456789012345678901e2",
              "1.7976931348623157e308", "2.2250738585072014e-308", "4.9e-324", "1e-7", "9007199254740993.0", "0.1", "1e23", "0.99999999999999999999", "1.8446744073709551616", "3.14159265358979323846264338327950288", "6.0221407600000000000000e23", "0.000000000000000000000000000001",
              "1e+21", "1E+5", "1.5e+10", "6.022140e+23", "#d7e+2", "-2.5E+3", "1e-0", "1e+0", "#d1.5", "#d-12e1", "00012.500e01", "12345678901234567890123e+2", "1e+308", "2e-308", "5E-1", "0e0", "-0.0", "0e+5", "1e-99999999999", "-1e-99999999999", "0e99999999999", "-0e99999999999", "0.0e-4294967296", "#d+42", "#d-42", "#d-9223372036854775808", "#d+18446744073709551615"] {
        out.push(format!("dec:{}", l));
    }
    // integers around the 64-bit boundaries in all radixes
    let vals: Vec<u128> = vec![0, 1, 9, 10, 255, (1u128 << 63) - 1, 1u128 << 63, (1u128 << 63) + 1, (1u128 << 64) - 1];
    for v in &vals {
        for (pfx, radix) in [("#b", 2u32), ("#o", 8), ("#d", 10), ("", 10), ("#x", 16)] {
            for sign in ["", "-", "+"] {
                out.push(format!("int:{}:{}:{}:{}", pfx, sign, radix, v));
            }
        }
    }
    // over-long integers: value far beyond u64 in each radix
    for (pfx, radix) in [("#b", 2u32), ("#o", 8), ("#x", 16), ("#d", 10), ("", 10)] {
        out.push(format!("long:{}:{}", pfx, radix));
    }
    // just past the 64-bit range: must become a float close to the true value, never wrap
    for l in ["18446744073709551616", "18446744073709551617", "18446744073709551619", "-18446744073709551617", "000018446744073709551616", "#d18446744073709551618", "9223372036854775808", "-9223372036854775809"] {
        out.push(format!("big:{}", l));
    }
    // magnitudes no double can hold: rejected, never infinity or NaN
    out.push(format!("huge:#x{}", "F".repeat(256)));
    out.push(format!("huge:#x1{}", "0".repeat(256)));
    out.push(format!("huge:-#x{}", "F".repeat(260)));
    out.push(format!("huge:#b1{}", "0".repeat(1024)));
    out.push(format!("huge:#o1{}", "0".repeat(342)));
    for l in ["1e309", "1e400", "-1e309", "2.5e310", "17976931348623157e293", "1e99999", "2e308", "-1.8e308", "17976931348623159e292", "1.8e+308", "#d2e308", "-1e99999999999", "1e99999999999", "-2.5e+4294967296", "#d-1e2147483648"] { out.push(format!("huge:{}", l)); }
    out.push(format!("huge:1{}", "0".repeat(309)));
    out.push("printer:".into());
    // every power-of-ten scale the float conversion can be asked for, with short and long significands
    for m in ["1", "-3", "2.5", "1.25", "1234.5678", "9007199254740991", "12345678901234567890123", "0.0007", "99999999999999999999"] { out.push(format!("esweep:{}", m)); }
    let seed = crate::gen::thorough_seed(ob).unwrap_or(0);
    for k in 0..crate::gen::scale(ob, 16) as u64 { out.push(format!("rnd:{}", seed.wrapping_mul(1000).wrapping_add(k))); }
    for i in 0..8 { out.push(format!("octets:{}", i)); }
    if ob.contains("parse_long_integer") { out.sort_by_key(|c| !c.starts_with("long")); }
    out
}

fn to_radix(mut v: u128, radix: u32) -> String {
    if v == 0 { return "0".into(); }
    let mut s = vec![];
    while v > 0 { s.push(std::char::from_digit((v % radix as u128) as u32, radix).unwrap()); v /= radix as u128; }
    s.iter().rev().collect()
}

fn check(case: &str) -> Option<String> {
    let p: Vec<&str> = case.splitn(2, ':').collect();
    match p[0] {
        "dec" => {
            let lit = p[1];
            if !lit.starts_with('#') && (lit.contains('.') || lit.contains('e') || lit.contains('E')) && lit.parse::<f64>().map(|f| f.is_finite()).unwrap_or(false) {
                if let Some(m) = dec_opt(lit, true) { return Some(format!("{} [Options::elisp()]", m)); }
            }
            let want: f64 = lit.trim_start_matches("#d").parse().ok()?;
            match lexpr::from_str(lit) {
                Ok(v) => {
                    let got = v.as_f64();
                    if !v.is_f64() && !(lit.contains('e') || lit.contains('E') || lit.contains('.')) { return None; }
                    match got {
                        Some(g) => {
                            let rel = if want == 0.0 { (g - want).abs() } else { ((g - want) / want).abs() };
                            if rel > 2f64.powi(-50) { return Some(format!("from_str({:?}) = {:?}, exact value rounds to {:?}", lit, g, want)); }
                            None
                        }
                        None => Some(format!("from_str({:?}) = {} is not a number", lit, v)),
                    }
                }
                Err(e) => Some(format!("from_str({:?}) fails: {} (the literal denotes {:?})", lit, e, want)),
            }
        }
        "esweep" => {
            for e in -345i32..=309 {
                for lit in [format!("{}e{}", p[1], e), format!("{}E{}{}", p[1], if e >= 0 { "+" } else { "" }, e)] {
                    if let Some(m) = dec_one(&lit) { return Some(m); }
                }
            }
            None
        }
        "rnd" => {
            let mut r = crate::gen::Rng::new(p[1].parse().ok()?);
            for _ in 0..400 {
                let nd = 1 + r.below(24);
                let mut lit = String::new();
                if r.below(3) == 0 { lit.push('-'); }
                let dot = r.below(nd + 1);
                for i in 0..nd {
                    if i == dot && i > 0 { lit.push('.'); }
                    lit.push((b'0' + if i == 0 { 1 + r.below(9) } else { r.below(10) } as u8) as char);
                }
                if dot == nd || dot == 0 || r.below(4) > 0 { lit.push_str(&format!("e{}", r.below(640) as i32 - 330)); }
                if let Some(m) = dec_one(&lit) { return Some(m); }
            }
            None
        }
        "int" => {
            let f: Vec<&str> = p[1].split(':').collect();
            let (pfx, sign, radix, v): (&str, &str, u32, u128) = (f[0], f[1], f[2].parse().ok()?, f[3].parse().ok()?);
            let lit = format!("{}{}{}", pfx, sign, to_radix(v, radix));
            let lit0 = format!("{}{}000{}", pfx, sign, to_radix(v, radix));
            for l in [lit, lit0] {
                let r = lexpr::from_str(&l);
                let val = match r { Ok(v) => v, Err(e) => return Some(format!("from_str({:?}) fails: {}", l, e)) };
                let neg = sign == "-";
                if !neg {
                    if val.as_u64() != Some(v as u64) { return Some(format!("from_str({:?}) = {}, want {}", l, val, v)); }
                } else if v <= (1u128 << 63) {
                    let want = -(v as i128);
                    let got = val.as_i64().map(|x| x as i128).or(val.as_u64().map(|x| x as i128));
                    if got != Some(want) { return Some(format!("from_str({:?}) = {}, want {}", l, val, want)); }
                } else {
                    let want = -(v as f64);
                    if val.as_f64() != Some(want) || !val.is_f64() { return Some(format!("from_str({:?}) = {}, want float {}", l, val, want)); }
                }
            }
            None
        }
        "big" => {
            let lit = p[1];
            let digits: String = lit.chars().filter(|c| c.is_ascii_digit()).collect();
            let mag: f64 = digits.trim_start_matches('0').parse().ok()?;
            let want = if lit.starts_with('-') { -mag } else { mag };
            match lexpr::from_str(lit) {
                Ok(v) => {
                    if lit == "9223372036854775808" { return if v.as_u64() == Some(1u64 << 63) { None } else { Some(format!("from_str({:?}) = {}", lit, v)) }; }
                    match v.as_f64() { Some(g) if v.is_f64() && ((g - want) / want).abs() <= 2f64.powi(-50) => None, _ => Some(format!("from_str({:?}) = {:?}, the literal denotes about {:e} (outside the 64-bit integer range: a float approximating it)", lit, v, want)) }
                }
                Err(e) => Some(format!("from_str({:?}) fails: {}", lit, e)),
            }
        }
        "octets" => {
            // byte-vector elements go through their own radix-prefix dispatch (Parser::parse_number)
            let table: Vec<(&str, Option<Vec<u8>>)> = vec![("#u8(#o17 #o377 #o0)", Some(vec![15, 255, 0])), ("#u8(#xff #x0A #xa)", Some(vec![255, 10, 10])), ("#u8(#b101 #b11111111)", Some(vec![5, 255])), ("#u8(#d9 #d255 12 007)", Some(vec![9, 255, 12, 7])),
                ("#u8(#o19)", None), ("#u8(#b2)", None), ("#u8(#xfg)", None), ("#vu8(#o10 #x10 #b10 #d10 10)", Some(vec![8, 16, 2, 10, 10]))];
            let (text, want) = table.into_iter().nth(p[1].parse::<usize>().ok()?)?;
            match (lexpr::from_str(text), want) {
                (Ok(v), Some(w)) => if v.as_bytes() == Some(&w[..]) { None } else { Some(format!("from_str({:?}) = {}, the literal denotes the octets {:?}", text, v, w)) },
                (Err(e), Some(w)) => Some(format!("from_str({:?}) fails ({}), the literal denotes the octets {:?}", text, e, w)),
                (Ok(v), None) => Some(format!("from_str({:?}) = {} although a digit is outside the radix", text, v)),
                (Err(_), None) => None,
            }
        }
        "huge" => {
            let lit = p[1];
            match std::panic::catch_unwind(|| lexpr::from_str(lit)) {
                Err(_) => Some(format!("from_str of a {}-byte literal {:.20}... panics", lit.len(), lit)),
                Ok(Ok(v)) => match v.as_f64() { Some(g) if !g.is_finite() => Some(format!("from_str({:.24}...) = {:?}: a magnitude too large for a double must be rejected, never returned as infinity or NaN", lit, g)), Some(_) => Some(format!("from_str({:.24}...) = {} although no double can hold the value", lit, v)), None => Some(format!("from_str({:.24}...) = {}", lit, v)) },
                Ok(Err(_)) => None,
            }
        }
        "long" => {
            let f: Vec<&str> = p[1].split(':').collect();
            let (pfx, radix): (&str, u32) = (f[0], f[1].parse().ok()?);
            // digit string d1 d2 ... with 24 digits beyond what fits: true value computed in f64 from exact u128 head * radix^k
            let head: u128 = u128::MAX / 3;
            let k = 12usize;
            let lit = format!("{}{}{}", pfx, to_radix(head, radix), "0".repeat(k));
            let want = (head as f64) * (radix as f64).powi(k as i32);
            match lexpr::from_str(&lit) {
                Ok(v) => match v.as_f64() {
                    Some(g) if ((g - want) / want).abs() <= 2f64.powi(-40) => None,
                    o => Some(format!("from_str({:?}) = {:?}, true value is about {:e}", lit, o, want)),
                },
                Err(e) => Some(format!("from_str({:?}) fails: {}", lit, e)),
            }
        }
        "printer" => {
            for f in [1e21f64, 1e22, 5e-324, 1.5, 1e-7, 123456.789, f64::MAX, f64::MIN_POSITIVE, 1e23, 0.1, -2.5e-10, 1.0, -250.0, 100.0, 1e15, 0.0, 4294967296.0, 9007199254740992.0, 1e16, 123456789.0] {
                // every way a number is turned into text: the print functions, Display, and the same inside a list
                let v = Value::from(f);
                for (how, t) in [("Display", format!("{}", v)), ("to_string_custom(elisp)", lexpr::to_string_custom(&v, lexpr::print::Options::elisp()).ok()?), ("Display of a list", format!("{}", Value::list(vec![v.clone()]))), ("to_vec", String::from_utf8(lexpr::to_vec(&v).ok()?).ok()?)] {
                    let back = lexpr::from_str(&t).ok().map(|b| if how == "Display of a list" { b.get(0).cloned().unwrap_or(Value::Nil) } else { b });
                    match back { Some(b) if b.is_f64() && b.as_f64() == Some(f) => {}, o => return Some(format!("the float {:?} is printed by {} as {:?}, which reads back as {:?}", f, how, t, o)) }
                }
                let t = lexpr::to_string(&Value::from(f)).ok()?;
                match lexpr::from_str(&t) {
                    Ok(v) => match v.as_f64() {
                        Some(g) if v.is_f64() && ((g - f).abs() <= f.abs() * 2f64.powi(-50)) => {}
                        o => return Some(format!("printed {:?} as {:?}, read back {:?}", f, t, o)),
                    },
                    Err(e) => return Some(format!("printed {:?} as {:?}, which does not parse: {}", f, t, e)),
                }
            }
            for i in [0u64, 1, u64::MAX, 1 << 63] {
                let t = lexpr::to_string(&Value::from(i)).ok()?;
                if lexpr::from_str(&t).ok()?.as_u64() != Some(i) { return Some(format!("u64 {} printed as {:?} does not read back", i, t)); }
            }
            for i in [i64::MIN, -1, i64::MAX] {
                let t = lexpr::to_string(&Value::from(i)).ok()?;
                if lexpr::from_str(&t).ok()?.as_i64() != Some(i) { return Some(format!("i64 {} printed as {:?} does not read back", i, t)); }
            }
            None
        }
        _ => None,
    }
}

/// One decimal literal with fraction and/or exponent against std's correctly rounded conversion: a value no double can hold is an error,
/// a normal-range value is within 2^-50 (subnormal results, where that precision does not exist, are only required to be finite and close in
/// absolute terms), and digits below 2^53 with a written and an effective exponent of magnitude at most 22 are exact.
fn dec_one(lit: &str) -> Option<String> {
    // the same literal under the Emacs Lisp options (leading-digit symbols on: a digit-initial token is first tried as a number) denotes the same number
    if let Some(m) = dec_opt(lit, true) { return Some(format!("{} [Options::elisp()]", m)); }
    dec_opt(lit, false)
}
fn dec_opt(lit: &str, elisp: bool) -> Option<String> {
    let want: f64 = lit.parse().ok()?;
    let r = if elisp { lexpr::from_str_custom(lit, lexpr::parse::Options::elisp()) } else { lexpr::from_str(lit) };
    if want.is_infinite() {
        // under leading-digit symbols a digit-initial token that is not a readable number is a symbol (C08's business): not a number either way
        if elisp { if let Ok(v) = &r { if v.is_symbol() { return None; } } }
        return match r { Ok(v) => Some(format!("from_str({:?}) = {} although no double can hold the value", lit, v)), Err(_) => None };
    }
    let v = match r { Ok(v) => v, Err(e) => return Some(format!("from_str({:?}) fails: {} (the literal denotes {:?})", lit, e, want)) };
    let g = match v.as_f64() { Some(g) if v.is_f64() => g, _ => return Some(format!("from_str({:?}) = {} is not a float", lit, v)) };
    if !g.is_finite() { return Some(format!("from_str({:?}) = {:?}", lit, g)); }
    if want.abs() < f64::MIN_POSITIVE {
        return if (g - want).abs() <= f64::MIN_POSITIVE * 2f64.powi(-40) { None } else { Some(format!("from_str({:?}) = {:e}, exact value rounds to {:e}", lit, g, want)) };
    }
    if ((g - want) / want).abs() > 2f64.powi(-50) { return Some(format!("from_str({:?}) = {:e}, exact value rounds to {:e}", lit, g, want)); }
    let (mant, exp) = match lit.find(|c| c == 'e' || c == 'E') { Some(i) => (&lit[..i], lit[i + 1..].parse::<i64>().ok()?), None => (lit, 0) };
    let digits: String = mant.chars().filter(|c| c.is_ascii_digit()).collect();
    let frac = mant.find('.').map(|i| mant.len() - i - 1).unwrap_or(0) as i64;
    // the build without fast-float-parsing (the replay crate's `with-serde` feature is off exactly there) is correctly rounded up to 19 significant digits
    if !cfg!(feature = "with-serde") && digits.trim_start_matches('0').len() <= 19 && exp.abs() <= 400 && g != want { return Some(format!("from_str({:?}) = {:e} in the build without fast-float-parsing, the correctly rounded double is {:e}", lit, g, want)); }
    if digits.len() <= 15 && exp.abs() <= 22 && (exp - frac).abs() <= 22 && g != want { return Some(format!("from_str({:?}) = {:e}, the correctly rounded double is {:e}", lit, g, want)); }
    None
}
