//! C20 witness family: boundary integers / floats / strings through every accessor and comparison.
use crate::Family;
use lexpr::{Number, Value};

pub fn family() -> Family {
    Family { name: "c20", cases, check }
}

fn ints() -> Vec<i128> {
    let mut v = vec![];
    for k in [0u32, 7, 8, 15, 16, 31, 32, 63, 64] {
        let p = 1i128 << k;
        for d in [-2i128, -1, 0, 1, 2] {
            v.push(p + d);
            v.push(-(p + d));
        }
    }
    v.retain(|x| *x >= i64::MIN as i128 && *x <= u64::MAX as i128);
    v.sort();
    v.dedup();
    v
}

fn cases(_ob: &str) -> Vec<String> {
    let mut out = vec![];
    for i in ints() {
        out.push(format!("int:{}", i));
    }
    for f in [0.0f64, -0.0, 1.5, -1.5, 1e300, f64::NAN, f64::INFINITY, f64::NEG_INFINITY, 9007199254740993.0, 5e-324] {
        out.push(format!("f64:{}", f.to_bits()));
    }
    for f in [0.1f32, -0.0, f32::NAN, f32::INFINITY, 16777217.0, 1e-45] {
        out.push(format!("f32:{}", f.to_bits()));
    }
    for s in ["", "a", "nil", "é😀", "a\0b"] {
        out.push(format!("str:{}", crate::hex(s.as_bytes())));
    }
    out.push("kinds:".to_string());
    out
}

fn kinds(v: &Value) -> Vec<bool> {
    vec![
        v.is_nil(), v.is_null(), v.is_boolean(), v.is_number(), v.is_char(), v.is_string(), v.is_symbol(),
        v.is_keyword(), v.is_bytes(), v.is_cons(), v.is_vector(),
    ]
}
fn somes(v: &Value) -> Vec<bool> {
    vec![
        v.as_nil().is_some(), v.as_null().is_some(), v.as_bool().is_some(), v.as_number().is_some(),
        v.as_char().is_some(), v.as_str().is_some(), v.as_symbol().is_some(), v.as_keyword().is_some(),
        v.as_bytes().is_some(), v.as_cons().is_some(), v.as_slice().is_some(),
    ]
}

fn check_value_int(i: i128, v: &Value, what: &str) -> Option<String> {
    let want_i64 = if i >= i64::MIN as i128 && i <= i64::MAX as i128 { Some(i as i64) } else { None };
    let want_u64 = if i >= 0 && i <= u64::MAX as i128 { Some(i as u64) } else { None };
    if v.as_i64() != want_i64 { return Some(format!("{}: as_i64() = {:?}, want {:?}", what, v.as_i64(), want_i64)); }
    if v.as_u64() != want_u64 { return Some(format!("{}: as_u64() = {:?}, want {:?}", what, v.as_u64(), want_u64)); }
    if v.is_i64() != want_i64.is_some() { return Some(format!("{}: is_i64() = {}", what, v.is_i64())); }
    if v.is_u64() != want_u64.is_some() { return Some(format!("{}: is_u64() = {}", what, v.is_u64())); }
    if v.is_f64() { return Some(format!("{}: is_f64() on an integer", what)); }
    let f = if i >= 0 { (i as u64) as f64 } else { (i as i64) as f64 };
    if v.as_f64() != Some(f) { return Some(format!("{}: as_f64() = {:?}, want {:?}", what, v.as_f64(), f)); }
    // comparisons in both orders, against every width the integer fits
    macro_rules! cmp { ($t:ty, $acc:ident) => {
        for other in ints() {
            if other >= <$t>::MIN as i128 && other <= <$t>::MAX as i128 {
                let o = other as $t;
                let want = v.$acc().map_or(false, |x| x as i128 == other);
                if (*v == o) != want { return Some(format!("{}: (v == {}{}) = {}, want {}", what, o, stringify!($t), *v == o, want)); }
                if (o == *v) != want { return Some(format!("{}: ({}{} == v) = {}, want {}", what, o, stringify!($t), o == *v, want)); }
                if (&*v == o) != want { return Some(format!("{}: (&v == {}{}) wrong", what, o, stringify!($t))); }
            }
        }
    } }
    cmp!(i8, as_i64); cmp!(i16, as_i64); cmp!(i32, as_i64); cmp!(i64, as_i64);
    cmp!(u8, as_u64); cmp!(u16, as_u64); cmp!(u32, as_u64); cmp!(u64, as_u64);
    None
}

fn check(case: &str) -> Option<String> {
    let (tag, arg) = case.split_once(':')?;
    match tag {
        "int" => {
            let i: i128 = arg.parse().ok()?;
            macro_rules! via { ($t:ty) => {
                if i >= <$t>::MIN as i128 && i <= <$t>::MAX as i128 {
                    let v = Value::from(i as $t);
                    if let Some(m) = check_value_int(i, &v, &format!("Value::from({}{})", i, stringify!($t))) { return Some(m); }
                    let n = Number::from(i as $t);
                    if Value::Number(n.clone()) != v { return Some(format!("Number::from / Value::from disagree for {}", i)); }
                }
            } }
            via!(i8); via!(i16); via!(i32); via!(i64); via!(u8); via!(u16); via!(u32); via!(u64);
            None
        }
        "f64" => {
            let f = f64::from_bits(arg.parse().ok()?);
            let v = Value::from(f);
            if v.as_i64().is_some() || v.as_u64().is_some() || v.is_i64() || v.is_u64() { return Some(format!("float {:?} reported as integer", f)); }
            if !v.is_f64() { return Some(format!("float {:?}: is_f64 false", f)); }
            match v.as_f64() { Some(g) if g.to_bits() == f.to_bits() => {}, o => return Some(format!("as_f64({:?}) = {:?}", f, o)) }
            if Number::from_f64(f).is_some() != f.is_finite() { return Some(format!("from_f64({:?}) finiteness", f)); }
            let want = v.as_f64().map_or(false, |x| x == f);
            if (v == f) != want || (f == v) != want { return Some(format!("v == {:?} gives {}, want {}", f, v == f, want)); }
            None
        }
        "f32" => {
            let f = f32::from_bits(arg.parse().ok()?);
            let v = Value::from(f);
            match v.as_f64() { Some(g) if g.to_bits() == (f as f64).to_bits() => {}, o => return Some(format!("as_f64({:?}f32) = {:?}", f, o)) }
            let want = v.as_f64().map_or(false, |x| x == f as f64);
            if (v == f) != want || (f == v) != want { return Some(format!("v == {:?}f32 gives {}, want {}", f, v == f, want)); }
            // the same f32 against values that are NOT exactly that number (they only round to it in f32 precision), and against every kind of value
            let mut others: Vec<Value> = vec![Value::from(f as f64 * (1.0 + 1e-9)), Value::from(0.1f64), Value::from(16777217u32), Value::from(16777216u32), Value::from(1e300), Value::from(-1e300), Value::from(1e-300), Value::from(0), Value::from(f64::from(f))];
            others.extend([Value::Nil, Value::Null, Value::from(true), Value::from("0.1"), Value::symbol("x")]);
            for o in others {
                let want = o.as_f64().map_or(false, |x| x == f as f64);
                for (how, got) in [("value == f32", o == f), ("f32 == value", f == o), ("&value == f32", &o == f), ("&mut value == f32", { let mut c = o.clone(); &mut c == f })] {
                    if got != want { return Some(format!("{} with value {:?} and {:?}f32 gives {}, comparing with as_f64 gives {}", how, o, f, got, want)); }
                }
            }
            None
        }
        "str" => {
            let b = crate::unhex(arg);
            let s = String::from_utf8(b).ok()?;
            for (v, what) in [(Value::from(s.as_str()), "from(&str)"), (Value::from(s.clone()), "from(String)"),
                              (Value::from(s.clone().into_boxed_str()), "from(Box<str>)"), (Value::string(s.as_str()), "string()")] {
                if v.as_str() != Some(s.as_str()) { return Some(format!("{}: as_str = {:?}", what, v.as_str())); }
                if !(v == s.as_str()) || !(s.as_str() == v) || !(v == s) || !(s == v) || !(v == *s.as_str()) { return Some(format!("{}: == str false", what)); }
                if v.as_name() != Some(s.as_str()) { return Some(format!("{}: as_name", what)); }
                if v == "\u{1}other" { return Some(format!("{}: equals a different string", what)); }
            }
            let sy = Value::symbol(s.as_str());
            if sy.as_symbol() != Some(s.as_str()) || sy.as_str().is_some() || sy.as_name() != Some(s.as_str()) || sy == s.as_str() { return Some("symbol accessors".into()); }
            let kw = Value::keyword(s.as_str());
            if kw.as_keyword() != Some(s.as_str()) || kw.as_str().is_some() || kw.as_name() != Some(s.as_str()) || kw == s.as_str() { return Some("keyword accessors".into()); }
            let by = Value::from(s.as_bytes());
            if by.as_bytes() != Some(s.as_bytes()) || by.as_name().is_some() { return Some("bytes accessors".into()); }
            let by2 = Value::from(s.as_bytes().to_vec());
            if by2.as_bytes() != Some(s.as_bytes()) { return Some("bytes(Vec) accessors".into()); }
            None
        }
        "kinds" => {
            let vals = vec![
                Value::Nil, Value::Null, Value::from(true), Value::from(false), Value::from(1), Value::from(-1), Value::from(1.5),
                Value::from('x'), Value::from("s"), Value::symbol("s"), Value::keyword("k"), Value::from(&b"ab"[..]),
                Value::from((1, 2)), Value::cons(1, Value::Null), Value::from(vec![Value::from(1)]), Value::list(vec![1, 2]),
            ];
            for v in &vals {
                let k = kinds(v);
                if k.iter().filter(|b| **b).count() != 1 { return Some(format!("{:?}: kinds {:?}", v, k)); }
                if k != somes(v) { return Some(format!("{:?}: is_x {:?} vs as_x {:?}", v, k, somes(v))); }
                let name_ok = v.is_string() || v.is_symbol() || v.is_keyword();
                if v.as_name().is_some() != name_ok { return Some(format!("{:?}: as_name", v)); }
                for b in [true, false] {
                    let want = v.as_bool() == Some(b);
                    if (*v == b) != want || (b == *v) != want { return Some(format!("{:?} == {}", v, b)); }
                }
            }
            if Value::from('x').as_char() != Some('x') || Value::from(true).as_bool() != Some(true) || Value::from(false).as_bool() != Some(false) { return Some("char/bool payload".into()); }
            let p = Value::from((1, "a"));
            match p.as_pair() { Some((a, b)) if *a == 1 && *b == "a" => {}, _ => return Some("pair payload".into()) }
            let vv = Value::from(vec![Value::from(1), Value::from("x")]);
            match vv.as_slice() { Some(s) if s.len() == 2 && s[0] == 1 && s[1] == "x" => {}, _ => return Some("vector payload".into()) }
            None
        }
        _ => None,
    }
}
