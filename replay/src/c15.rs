//! C15 witness family: (xs, tail) lists through every traversal, index and alist lookup.
use crate::Family;
use lexpr::{Cons, Value};

pub fn family() -> Family {
    Family { name: "c15", cases, check }
}

fn atoms() -> Vec<Value> {
    vec![Value::Nil, Value::from(1), Value::from("s"), Value::symbol("a"), Value::keyword("k"), Value::from(true),
         Value::from('c'), Value::from(vec![Value::from(1)]), Value::from(&b"x"[..])]
}

fn cases(_ob: &str) -> Vec<String> {
    let mut out = vec![];
    for n in 0..6usize {
        for t in 0..(atoms().len() + 3) {
            out.push(format!("list:{}:{}", n, t));
        }
    }
    out.push("alist:".into());
    out.push("index-nonlist:".into());
    out
}

fn tail_of(t: usize) -> Value {
    let a = atoms();
    if t < a.len() { a[t].clone() }
    else if t == a.len() { Value::Null }
    else if t == a.len() + 1 { Value::list(vec![100, 101]) }
    else { Value::append(vec![200], 7) }
}

fn check(case: &str) -> Option<String> {
    let parts: Vec<&str> = case.split(':').collect();
    match parts[0] {
        "list" => {
            let n: usize = parts[1].parse().ok()?;
            let t: usize = parts[2].parse().ok()?;
            let xs: Vec<Value> = (0..n).map(|i| if i % 2 == 0 { Value::from(i as u64) } else { Value::list(vec![i as u64]) }).collect();
            let tail = tail_of(t);
            let v = Value::append(xs.clone(), tail.clone());
            // expected (elements, terminator) after merging a list tail
            let (mut exs, mut et) = (xs.clone(), tail.clone());
            if let Value::Cons(c) = &tail { let (a, b) = c.to_vec(); exs.extend(a); et = b; }
            if exs.is_empty() {
                if v != tail { return Some(format!("append([], t) = {} want {}", v, tail)); }
                return None;
            }
            let c: &Cons = match v.as_cons() { Some(c) => c, None => return Some(format!("append non-empty is not a cons: {}", v)) };
            if c.to_vec() != (exs.clone(), et.clone()) { return Some(format!("to_vec = {:?}", c.to_vec())); }
            let (rv, rt) = c.to_ref_vec();
            if rv.iter().map(|x| (*x).clone()).collect::<Vec<_>>() != exs || *rt != et { return Some("to_ref_vec mismatch".into()); }
            if c.clone().into_vec() != (exs.clone(), et.clone()) { return Some("into_vec mismatch".into()); }
            if c.iter().count() != exs.len() { return Some(format!("iter visits {} cells, want {}", c.iter().count(), exs.len())); }
            let ii: Vec<_> = c.clone().into_iter().collect();
            if ii.len() != exs.len() { return Some("into_iter length".into()); }
            for (k, (a, b)) in ii.iter().enumerate() {
                if *a != exs[k] { return Some(format!("into_iter element {}", k)); }
                let last = k + 1 == exs.len();
                if last != b.is_some() || (last && b.as_ref() != Some(&et)) { return Some(format!("into_iter tail at {}: {:?}", k, b)); }
            }
            let mut li = c.list_iter();
            for k in 0..exs.len() { if li.next() != Some(&exs[k]) { return Some(format!("list_iter element {}", k)); } }
            if et.is_null() {
                if li.next().is_some() || li.next().is_some() { return Some("list_iter after proper list".into()); }
            } else {
                if li.next().is_some() { return Some("list_iter: expected None before tail".into()); }
                if li.next() != Some(&et) { return Some("list_iter: expected tail".into()); }
                if li.next().is_some() { return Some("list_iter: expected final None".into()); }
            }
            if v.is_list() != et.is_null() { return Some(format!("is_list = {}", v.is_list())); }
            if v.is_dotted_list() == v.is_list() { return Some("is_list / is_dotted_list not complementary".into()); }
            match (v.to_vec(), et.is_null()) { (Some(x), true) if x == exs => {}, (None, false) => {}, (o, _) => return Some(format!("Value::to_vec = {:?}", o)) }
            for i in [0usize, 1, 2, exs.len().saturating_sub(1), exs.len(), exs.len() + 1, usize::MAX] {
                let want = exs.get(i);
                if v.get(i) != want { return Some(format!("get({}) = {:?} want {:?}", i, v.get(i), want)); }
                if v[i] != *want.unwrap_or(&Value::Nil) { return Some(format!("v[{}]", i)); }
            }
            if Value::list(xs.clone()) != Value::append(xs.clone(), Value::Null) { return Some("list != append(.., Null)".into()); }
            None
        }
        "alist" => {
            let al = Value::list(vec![
                Value::from(1), Value::cons(Value::symbol("a"), 1), Value::cons(Value::from("b"), 2), Value::cons(Value::keyword("c"), 3),
                Value::cons(Value::symbol("a"), 4), Value::cons(Value::from(7), 5), Value::Null, Value::cons(Value::from(7), 6),
            ]);
            if al["a"] != 1 || al["b"] != 2 || al["c"] != 3 || al["zz"] != Value::Nil { return Some("alist name lookup".into()); }
            if al.get("a") != Some(&Value::from(1)) || al.get("zz").is_some() { return Some("alist get".into()); }
            if al[String::from("b")] != 2 || al[&String::from("c")] != 3 { return Some("alist String lookup".into()); }
            if al[Value::from(7)] != 5 || al[&Value::symbol("a")] != 1 || al[Value::from(8)] != Value::Nil { return Some("alist key lookup".into()); }
            // keys that are themselves pairs / lists and differ only in their tail; a non-pair element before the entry looked up by name
            let k = |d: Value| Value::cons(Value::symbol("x"), d);
            let al2 = Value::list(vec![Value::symbol("marker"), Value::cons(k(Value::from(1)), Value::symbol("first")), Value::from(42), Value::cons(k(Value::from(2)), Value::symbol("second")),
                                        Value::cons(Value::list(vec![1, 2]), Value::symbol("proper")), Value::cons(Value::append(vec![1, 2], 3), Value::symbol("dotted")), Value::cons(Value::symbol("b"), 9)]);
            if al2[k(Value::from(2))] != Value::symbol("second") || al2[k(Value::from(1))] != Value::symbol("first") { return Some("alist lookup by a pair key: entries whose keys differ only in the cdr are confused".into()); }
            if al2.get(k(Value::from(3))).is_some() || al2.get(k(Value::Null)).is_some() || al2[Value::list(vec![1])] != Value::Nil { return Some("alist lookup by a pair key matches an entry whose key has a different tail".into()); }
            if al2[Value::append(vec![1, 2], 3)] != Value::symbol("dotted") || al2[Value::list(vec![1, 2])] != Value::symbol("proper") { return Some("alist lookup by a list key: (1 2) and (1 2 . 3) are confused".into()); }
            if al2["b"] != 9 || al2.get("b") != Some(&Value::from(9)) { return Some("alist lookup by name gives up at a non-pair element before the entry".into()); }
            if Value::cons(1, 2) == Value::cons(1, 3) || Value::list(vec![1, 2]) == Value::append(vec![1, 2], 3) || Value::cons(1, 2) != Value::cons(1, 2) { return Some("pair equality ignores the tail".into()); }
            let dotted = Value::append(vec![Value::cons(Value::symbol("x"), 1)], Value::symbol("x"));
            if dotted["x"] != 1 || dotted["y"] != Value::Nil { return Some("dotted alist".into()); }
            None
        }
        "index-nonlist" => {
            // the empty list is a list: its element iterator exists and yields nothing, wherever the empty list comes from
            for (what, e) in [("Value::Null", Value::Null), ("Value::list(vec![])", Value::list(Vec::<Value>::new())), ("from_str(\"()\")", lexpr::from_str("()").ok()?), ("Value::append(vec![], Null)", Value::append(Vec::<Value>::new(), Value::Null))] {
                match e.list_iter() { Some(mut it) => if it.next().is_some() { return Some(format!("{}.list_iter() yields an element", what)); }, None => return Some(format!("{}.list_iter() is None although the empty list is a (proper) list", what)) }
                if !e.is_list() || e.is_dotted_list() || e.to_vec() != Some(vec![]) || e.to_ref_vec().map(|v| v.len()) != Some(0) { return Some(format!("{}: is_list / to_vec disagree about the empty list", what)); }
            }
            // lists built from iterators that cannot tell their length in advance (filter, filter_map, from_fn, take_while, flat_map)
            let evens: Vec<Value> = (1..=6).filter(|n| n % 2 == 0).map(Value::from).collect();
            if Value::list((1..=6).filter(|n| n % 2 == 0)).to_vec() != Some(evens.clone()) { return Some("Value::list over a filter iterator loses elements".into()); }
            if Value::append((1..=6).filter_map(|n| if n % 2 == 0 { Some(n) } else { None }), Value::symbol("t")).to_vec() != None || Value::append((1..=6).filter(|n| n % 2 == 0), Value::symbol("t")).list_iter().map(|i| i.count()) != Some(3) { return Some("Value::append over a filter_map iterator loses elements".into()); }
            let mut k = 0; let from_fn = Value::list(std::iter::from_fn(|| { k += 1; if k <= 3 { Some(Value::cons(Value::symbol("k"), k)) } else { None } }));
            if from_fn.list_iter().map(|i| i.count()) != Some(3) || from_fn["k"] != 1 { return Some("Value::list over iter::from_fn loses elements".into()); }
            if Value::list((1..10).take_while(|n| *n < 4)).to_vec().map(|v| v.len()) != Some(3) || Value::list(vec![vec![1, 2], vec![3]].into_iter().flatten()).to_vec().map(|v| v.len()) != Some(3) { return Some("Value::list over take_while / flatten loses elements".into()); }
            if Value::list(std::iter::empty::<Value>()) != Value::Null || Value::append(std::iter::empty::<Value>(), Value::from(5)) != Value::from(5) { return Some("Value::list / append over an empty iterator".into()); }
            let nested = Value::list(vec![Value::Null, Value::from(1)]);
            if nested.list_iter().and_then(|mut it| it.next().and_then(|e| e.list_iter().map(|mut i| i.next().is_none()))) != Some(true) { return Some("the empty list as a list element has no element iterator".into()); }
            for a in atoms() { if !a.is_null() && !a.is_cons() && a.list_iter().is_some() { return Some(format!("{}.list_iter() is Some for a non-list", a)); } }
            for a in atoms() {
                for i in [0usize, 1, usize::MAX] {
                    let want = a.as_slice().and_then(|s| s.get(i));
                    if a.get(i) != want { return Some(format!("{}.get({})", a, i)); }
                    let _ = &a[i];
                }
                if a.get("k").is_some() || a["k"] != Value::Nil || a[Value::from(1)] != Value::Nil { return Some(format!("{}[\"k\"]", a)); }
            }
            if Value::Null.get(0).is_some() || Value::Null["a"] != Value::Nil { return Some("Null index".into()); }
            None
        }
        _ => None,
    }
}
