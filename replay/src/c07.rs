//! C07 witness family: short-writing / failing sinks against to_string.
use crate::Family;
use lexpr::{print, Value};
use std::io::{self, Write};

pub fn family() -> Family {
    Family { name: "c07", cases, check }
}

trait GetLen { fn get_len(&self) -> usize; }
impl<F> GetLen for print::Printer<Sink, F> { fn get_len(&self) -> usize { LAST_LEN.with(|c| c.get()) } }
thread_local! { static LAST_LEN: std::cell::Cell<usize> = std::cell::Cell::new(0); }
struct Sink { out: Vec<u8>, per_call: usize, fail_at: Option<usize>, fail_call: Option<usize>, calls: usize, zero_call: Option<usize> }
impl Write for Sink {
    fn write(&mut self, buf: &[u8]) -> io::Result<usize> {
        self.calls += 1;
        if self.fail_call == Some(self.calls) { return Err(io::Error::new(io::ErrorKind::Other, "injected once")); }
        if self.zero_call == Some(self.calls) && !buf.is_empty() { return Ok(0); }
        if let Some(f) = self.fail_at {
            if self.out.len() >= f { return Err(io::Error::new(io::ErrorKind::Other, "injected")); }
        }
        let mut n = buf.len().min(self.per_call);
        if let Some(f) = self.fail_at { n = n.min(f - self.out.len()); }
        self.out.extend_from_slice(&buf[..n]);
        LAST_LEN.with(|c| c.set(self.out.len()));
        Ok(n)
    }
    fn flush(&mut self) -> io::Result<()> { Ok(()) }
}

pub fn values() -> Vec<Value> {
    vec![
        Value::from(1234567u64), Value::from(-55), Value::from(&[200u8, 100, 7][..]), Value::from(1.5), Value::from(2.0), Value::from(-1e15), Value::keyword("kw"), Value::list(vec![Value::keyword("a"), Value::keyword("bcd")]),
        Value::list(vec![Value::from(1234567u64), Value::from(-55), Value::from(&[200u8, 100][..])]),
        Value::from("a\"b\\c\n\u{1}\u{7f}é"), Value::symbol("sym"), Value::keyword("kw"), Value::from('x'), Value::from('\n'), Value::from('λ'),
        Value::Nil, Value::Null, Value::from(true), Value::from(false),
        Value::append(vec![Value::from(1), Value::from("s")], Value::symbol("t")),
        Value::from(vec![Value::from(10), Value::list(vec![Value::from(20), Value::from(vec![Value::from(30)])])]),
        Value::from(u64::MAX), Value::from(i64::MIN), Value::from(&[][..]),
    ]
}

pub fn option_sets() -> Vec<(String, Option<print::Options>)> {
    use print::*;
    let mut v: Vec<(String, Option<Options>)> = vec![("default-printer".into(), None), ("custom-default".into(), Some(Options::default())), ("elisp".into(), Some(Options::elisp()))];
    v.push(("r6rs-bytes".into(), Some(Options::default().with_bytes_syntax(BytesSyntax::R6RS))));
    v.push(("brackets".into(), Some(Options::default().with_vector_syntax(VectorSyntax::Brackets))));
    v.push(("nil-false-bool-sym".into(), Some(Options::default().with_nil_syntax(NilSyntax::False).with_bool_syntax(BoolSyntax::Symbol))));
    v.push(("kw-postfix".into(), Some(Options::default().with_keyword_syntax(KeywordSyntax::ColonPostfix))));
    v
}

fn cases(_ob: &str) -> Vec<String> {
    let mut out = vec![];
    for (oi, _) in option_sets().iter().enumerate() {
        for (vi, _) in values().iter().enumerate() {
            for k in [1usize, 2, 3, 0] {
                out.push(format!("short:{}:{}:{}", oi, vi, k));
            }
            out.push(format!("fail:{}:{}", oi, vi));
            out.push(format!("agree:{}:{}", oi, vi));
            out.push(format!("failonce:{}:{}", oi, vi));
            out.push(format!("fixed:{}:{}", oi, vi));
            out.push(format!("zeroonce:{}:{}", oi, vi));
        }
    }
    out
}

fn print_to(w: &mut Sink, v: &Value, o: &Option<print::Options>) -> io::Result<()> {
    match o { None => lexpr::to_writer(w, v), Some(o) => lexpr::to_writer_custom(w, v, *o) }
}
fn text(v: &Value, o: &Option<print::Options>) -> String {
    match o { None => lexpr::to_string(v).unwrap(), Some(o) => lexpr::to_string_custom(v, *o).unwrap() }
}

fn check(case: &str) -> Option<String> {
    let p: Vec<&str> = case.split(':').collect();
    let oi: usize = p[1].parse().ok()?;
    let vi: usize = p[2].parse().ok()?;
    let (oname, o) = option_sets().into_iter().nth(oi)?;
    let v = values().into_iter().nth(vi)?;
    let full = text(&v, &o);
    match p[0] {
        "short" => {
            let k: usize = p[3].parse().ok()?;
            let mut s = Sink { out: vec![], per_call: k, fail_at: None, fail_call: None, calls: 0, zero_call: None };
            let r = print_to(&mut s, &v, &o);
            match r {
                Ok(()) => if s.out != full.as_bytes() {
                    return Some(format!("options {}: sink accepting {} byte(s) per write received {:?}, to_string gives {:?}, call returned Ok", oname, k, String::from_utf8_lossy(&s.out), full));
                },
                Err(_) => if !full.as_bytes().starts_with(&s.out) {
                    return Some(format!("options {}: Err but delivered bytes {:?} are not a prefix of {:?}", oname, String::from_utf8_lossy(&s.out), full));
                } else if k > 0 {
                    return Some(format!("options {}: sink accepting {} byte(s) per write made the call fail", oname, k));
                },
            }
            None
        }
        "fail" => {
            for at in 0..=full.len() {
                let mut s = Sink { out: vec![], per_call: usize::MAX, fail_at: Some(at), fail_call: None, calls: 0, zero_call: None };
                let r = print_to(&mut s, &v, &o);
                if at < full.len() && r.is_ok() { return Some(format!("options {}: error injected at offset {} of {:?} but the call returned Ok", oname, at, full)); }
                if !full.as_bytes().starts_with(&s.out) { return Some(format!("options {}: bytes delivered before the error are not a prefix", oname)); }
            }
            None
        }
        "failonce" => {
            // a transient error at the k-th write call: the print call must fail (an Ok with missing bytes is a swallowed error)
            for k in 1..40usize {
                let mut s = Sink { out: vec![], per_call: usize::MAX, fail_at: None, fail_call: Some(k), calls: 0, zero_call: None };
                let r = print_to(&mut s, &v, &o);
                if s.calls < k { break; }
                if r.is_ok() { return Some(format!("options {}: write call #{} failed once but printing {:?} returned Ok with {:?}", oname, k, full, String::from_utf8_lossy(&s.out))); }
                if !full.as_bytes().starts_with(&s.out) { return Some(format!("options {}: after a transient error delivered bytes are not a prefix", oname)); }
            }
            None
        }
        "fixed" => {
            // a fixed-size buffer (std's Write for &mut [u8] accepts what fits, then 0 bytes): too small must be an error, never a truncated Ok
            for n in 0..=full.len() {
                let mut buf = vec![0u8; n];
                let r = { let mut w: &mut [u8] = &mut buf[..]; match &o { None => lexpr::to_writer(&mut w, &v), Some(o) => lexpr::to_writer_custom(&mut w, &v, *o) } };
                if n < full.len() && r.is_ok() { return Some(format!("options {}: a {}-byte buffer cannot hold {:?} ({} bytes) but the call returned Ok with {:?}", oname, n, full, full.len(), String::from_utf8_lossy(&buf))); }
                if n == full.len() && (r.is_err() || buf != full.as_bytes()) { return Some(format!("options {}: an exactly fitting buffer got {:?} / {:?}, to_string gives {:?}", oname, String::from_utf8_lossy(&buf), r.is_ok(), full)); }
                if !full.as_bytes().starts_with(&buf[..n.min(full.len())]) { return Some(format!("options {}: bytes in a {}-byte buffer are not a prefix of {:?}", oname, n, full)); }
            }
            None
        }
        "zeroonce" => {
            // the sink accepts zero bytes at the k-th write call: that is a failed write (WriteZero), an Ok return means bytes were dropped
            for k in 1..60usize {
                let mut s = Sink { out: vec![], per_call: usize::MAX, fail_at: None, fail_call: None, calls: 0, zero_call: Some(k) };
                let r = print_to(&mut s, &v, &o);
                if s.calls < k { break; }
                if r.is_ok() && s.out != full.as_bytes() { return Some(format!("options {}: write call #{} accepted 0 bytes; printing {:?} returned Ok but the sink holds {:?}", oname, k, full, String::from_utf8_lossy(&s.out))); }
                if !full.as_bytes().starts_with(&s.out) { return Some(format!("options {}: after a zero-byte write delivered bytes are not a prefix", oname)); }
            }
            None
        }
        "agree" => {
            if lexpr::to_string(&v).unwrap() != lexpr::to_string_custom(&v, print::Options::default()).unwrap() { return Some("default printer and customised printer with default options disagree".into()); }
            if lexpr::to_vec(&v).unwrap() != lexpr::to_string(&v).unwrap().into_bytes() { return Some("to_vec / to_string disagree".into()); }
            if format!("{}", v) != lexpr::to_string(&v).unwrap() { return Some("Display / to_string disagree".into()); }
            if std::str::from_utf8(&lexpr::to_vec(&v).unwrap()).is_err() { return Some("to_vec output is not UTF-8".into()); }
            // one Printer object used for several values (and written to directly through its own io::Write impl): the sink receives the texts one after the other
            for k in [1usize, 2, usize::MAX] {
                let all = values();
                let mut want: Vec<u8> = vec![];
                let mut pr = print::Printer::new(Sink { out: vec![], per_call: k, fail_at: None, fail_call: None, calls: 0, zero_call: None });
                let mut pc = print::Printer::with_options(Sink { out: vec![], per_call: k, fail_at: None, fail_call: None, calls: 0, zero_call: None }, print::Options::default());
                for (i, x) in [&v, &all[0], &v, &all[all.len() - 1]].iter().enumerate() {
                    if pr.print(x).is_err() || pc.print(x).is_err() { return Some("Printer::print fails on a sink that accepts bytes".into()); }
                    want.extend_from_slice(lexpr::to_string(x).unwrap().as_bytes());
                    if i % 2 == 0 { if pr.write_all(b" \n").is_err() || pc.write_all(b" \n").is_err() { return Some("writing through Printer's io::Write impl fails".into()); } want.extend_from_slice(b" \n"); }
                }
                let (a, b) = (pr.into_inner().out, pc.into_inner().out);
                if a != want { return Some(format!("one Printer used for four values (sink takes {} bytes per call) delivered {:?}, the texts are {:?}", k, String::from_utf8_lossy(&a), String::from_utf8_lossy(&want))); }
                if b != want { return Some(format!("one customised Printer (default options) used for four values delivered {:?}, the texts are {:?}", String::from_utf8_lossy(&b), String::from_utf8_lossy(&want))); }
            }
            // a Printer whose sink failed once in the middle of a value: the NEXT print call still delivers exactly its own value's text
            for k in 1..6usize {
                let first = Value::list(vec![Value::from("a string with \"quotes\" and more text"), Value::symbol("sym"), Value::from("second string")]);
                for custom in [false, true] {
                    LAST_LEN.with(|c| c.set(0));
                    let sink = Sink { out: vec![], per_call: if custom { 3 } else { usize::MAX }, fail_at: None, fail_call: Some(k), calls: 0, zero_call: None };
                    let (r1, before, out, t2) = if custom {
                        let mut p = print::Printer::with_options(sink, print::Options::elisp());
                        let r1 = p.print(&first).is_ok(); let before = p.get_len();
                        if p.print(&v).is_err() { return Some("Printer::print fails although the sink accepts bytes again".into()); }
                        (r1, before, p.into_inner().out, lexpr::to_string_custom(&v, print::Options::elisp()).unwrap().into_bytes())
                    } else {
                        let mut p = print::Printer::new(sink);
                        let r1 = p.print(&first).is_ok(); let before = p.get_len();
                        if p.print(&v).is_err() { return Some("Printer::print fails although the sink accepts bytes again".into()); }
                        (r1, before, p.into_inner().out, lexpr::to_string(&v).unwrap().into_bytes())
                    };
                    if before > out.len() || out[before..] != t2[..] { return Some(format!("a {}Printer whose sink failed once (write call {}, first print ok: {}) then prints {:?} as {:?}", if custom { "customised " } else { "" }, k, r1, String::from_utf8_lossy(&t2), String::from_utf8_lossy(&out[before.min(out.len())..]))); }
                }
            }
            // the serde companion crate prints through the same printer: its writer entry points against short-writing and failing sinks
            #[cfg(feature = "with-serde")]
            {
                let v = (vec![("a\u{e9}".to_string(), 1u32), ("b".to_string(), 20000)], Some(1.5f64), "text with \"quotes\"".to_string(), v.to_string(), vec![0u8, 200]);
                let want = serde_lexpr::to_string(&v).ok()?.into_bytes();
                if want != lexpr::to_string(&serde_lexpr::to_value(&v).ok()?).unwrap().into_bytes() { return Some("serde_lexpr::to_string differs from printing serde_lexpr::to_value".into()); }
                for k in [1usize, 3, usize::MAX] {
                    let mut s = Sink { out: vec![], per_call: k, fail_at: None, fail_call: None, calls: 0, zero_call: None };
                    if serde_lexpr::to_writer(&mut s, &v).is_err() || s.out != want { return Some(format!("serde_lexpr::to_writer into a sink accepting {} bytes per call delivered {:?}, the text is {:?}", k, String::from_utf8_lossy(&s.out), String::from_utf8_lossy(&want))); }
                }
                for at in 0..want.len() {
                    let mut s = Sink { out: vec![], per_call: usize::MAX, fail_at: Some(at), fail_call: None, calls: 0, zero_call: None };
                    let r = serde_lexpr::to_writer(&mut s, &v);
                    if r.is_ok() { return Some(format!("serde_lexpr::to_writer returns Ok although the sink failed after {} of {} bytes", at, want.len())); }
                    if !want.starts_with(&s.out) { return Some(format!("serde_lexpr::to_writer into a sink failing after {} bytes: delivered {:?} is not a prefix of the text", at, String::from_utf8_lossy(&s.out))); }
                }
                let mut s = Sink { out: vec![], per_call: usize::MAX, fail_at: None, fail_call: None, calls: 0, zero_call: Some(1) };
                if serde_lexpr::to_writer(&mut s, &v).is_ok() { return Some("serde_lexpr::to_writer returns Ok although the sink stopped accepting bytes".into()); }
                let mut small = [0u8; 2];
                if want.len() > 2 && serde_lexpr::to_writer(&mut small[..], &v).is_ok() { return Some("serde_lexpr::to_writer into a 2-byte buffer returns Ok".into()); }
            }
            None
        }
        _ => None,
    }
}
