//! C08 witness family: tokens under option sets on the real parser, compared with a small table written from the documentation.
use crate::Family;
use lexpr::parse::{Brackets, CharSyntax, KeywordSyntax, NilSymbol, Options, TSymbol};
use lexpr::{from_str_custom, Value};

pub fn family() -> Family {
    Family { name: "c08", cases, check }
}

fn base() -> Options { Options::new() }
fn ctx(tok: &str, k: usize) -> String { match k { 0 => tok.to_string(), 1 => format!("({} x)", tok), 2 => format!("(x {})", tok), _ => format!("#({})", tok) } }
fn wrap(v: Value, k: usize) -> Value { match k { 0 => v, 1 => Value::list(vec![v, Value::symbol("x")]), 2 => Value::list(vec![Value::symbol("x"), v]), _ => Value::Vector(vec![v].into()) } }

/// all 1536 option sets, by index
fn optset(i: usize) -> (Options, [usize; 8]) {
    let f = [i % 8, (i / 8) % 3, (i / 24) % 2, (i / 48) % 2, (i / 96) % 2, (i / 192) % 2, (i / 384) % 2, (i / 768) % 2];
    let mut kws = vec![];
    if f[0] & 1 != 0 { kws.push(KeywordSyntax::ColonPrefix); }
    if f[0] & 2 != 0 { kws.push(KeywordSyntax::ColonPostfix); }
    if f[0] & 4 != 0 { kws.push(KeywordSyntax::Octothorpe); }
    let o = Options::new().with_keyword_syntaxes(kws)
        .with_nil_symbol([NilSymbol::Default, NilSymbol::EmptyList, NilSymbol::Special][f[1]]).with_t_symbol([TSymbol::Default, TSymbol::True][f[2]])
        .with_brackets([Brackets::List, Brackets::Vector][f[3]]).with_string_syntax([lexpr::parse::StringSyntax::R6RS, lexpr::parse::StringSyntax::Elisp][f[4]])
        .with_char_syntax([CharSyntax::R6RS, CharSyntax::Elisp][f[5]]).with_racket_hash_percent_symbols(f[6] == 1).with_leading_digit_symbols(f[7] == 1);
    (o, f)
}
const REF_TOKENS: &[&str] = &["nil", "t", "foo", "nil:", "t:", "foo:", ":foo", "::a", ":a:", ":", "#:foo", "#:nil", "#%foo", "?a", "?z", "12", "12ab", "1+", "#nil", "#t", "#f", "#\\a", "#\\space", "nilx", "tt", "T", "NIL", "-", "+", "...", "-foo", "x:y", "#x1F", "#b101", "\"s\""];
/// the reading of a token under an option set, written from the documentation of the options (independent of the parser); None = skip
fn reference(tok: &str, f: &[usize; 8]) -> Option<Option<Value>> {
    let (prefix, postfix, octo) = (f[0] & 1 != 0, f[0] & 2 != 0, f[0] & 4 != 0);
    let (racket, lds, elisp_char) = (f[6] == 1, f[7] == 1, f[5] == 1);
    let sym = |s: &str| Some(Some(Value::symbol(s)));
    let kw = |s: &str| Some(Some(Value::keyword(s)));
    let b = tok.as_bytes();
    if tok.starts_with("#:") { return if octo { kw(&tok[2..]) } else { Some(None) }; }
    if tok.starts_with("#%") { return if racket { sym(tok) } else { Some(None) }; }
    match tok { "#nil" => return Some(Some(Value::Nil)), "#t" => return Some(Some(Value::Bool(true))), "#f" => return Some(Some(Value::Bool(false))),
                "#\\a" => return Some(Some(Value::Char('a'))), "#\\space" => return Some(Some(Value::Char(' '))), "#x1F" => return Some(Some(Value::from(31))), "#b101" => return Some(Some(Value::from(5))),
                "\"s\"" => return Some(Some(Value::from("s"))), _ => {} }
    if b[0] == b':' { return if prefix { kw(&tok[1..]) } else { sym(tok) }; }
    if b[0] == b'?' { return if elisp_char { Some(Some(Value::Char(tok[1..].chars().next()?))) } else { sym(tok) }; }
    if b[0].is_ascii_digit() {
        let numeric = tok.bytes().all(|c| c.is_ascii_digit());
        if numeric { return Some(Some(Value::from(tok.parse::<u64>().ok()?))); }
        return if lds { sym(tok) } else { None };   // option off: recorded finding D7b, not judged here
    }
    if b[0].is_ascii_alphabetic() {
        if postfix && tok.len() > 1 && tok.ends_with(':') { return kw(&tok[..tok.len() - 1]); }
        if tok == "nil" { return Some(Some(match f[1] { 0 => Value::symbol("nil"), 1 => Value::Null, _ => Value::Nil })); }
        if tok == "t" { return Some(Some(if f[2] == 1 { Value::Bool(true) } else { Value::symbol("t") })); }
        return sym(tok);
    }
    sym(tok)   // - + ... -foo: peculiar identifiers, governed by no option
}
fn cases(_ob: &str) -> Vec<String> {
    let mut out: Vec<String> = (0..table().len()).map(|i| format!("tok:{}", i)).collect();
    for ti in 0..REF_TOKENS.len() { out.push(format!("ref:{}", ti)); }
    for t in ["1+", "1-", "1/2", "1.5.6", "0x10", "12ab"] { out.push(format!("whole:{}", t)); }
    for (i, _) in QUOTES.iter().enumerate() { out.push(format!("quotes:{}", i)); }
    out.push("kwsets:".into());
    out
}

fn table() -> Vec<(&'static str, Options, Option<Value>)> {
    let kw = |s: &str| Some(Value::keyword(s));
    let sy = |s: &str| Some(Value::symbol(s));
    vec![
        ("nil", base(), sy("nil")), ("nil", base().with_nil_symbol(NilSymbol::EmptyList), Some(Value::Null)), ("nil", base().with_nil_symbol(NilSymbol::Special), Some(Value::Nil)),
        ("nil:", base().with_nil_symbol(NilSymbol::EmptyList), sy("nil:")), ("nil:", base().with_nil_symbol(NilSymbol::Special), sy("nil:")), ("t:", base().with_t_symbol(TSymbol::True), sy("t:")),
        ("nilx", base().with_nil_symbol(NilSymbol::Special), sy("nilx")), ("tt", base().with_t_symbol(TSymbol::True), sy("tt")),
        ("t", base(), sy("t")), ("t", base().with_t_symbol(TSymbol::True), Some(Value::Bool(true))),
        (":k", base(), sy(":k")), (":k", base().with_keyword_syntax(KeywordSyntax::ColonPrefix), kw("k")),
        ("::a", base().with_keyword_syntax(KeywordSyntax::ColonPrefix), kw(":a")), ("::", base().with_keyword_syntax(KeywordSyntax::ColonPrefix), kw(":")), ("::a", base(), sy("::a")),
        (":a:", base().with_keyword_syntax(KeywordSyntax::ColonPrefix), kw("a:")),
        ("#\\space", base().with_char_syntax(CharSyntax::Elisp), Some(Value::Char(' '))), ("#\\x41", base().with_char_syntax(CharSyntax::Elisp), Some(Value::Char('A'))), ("#\\a", Options::elisp(), Some(Value::Char('a'))),
        ("#\\space", base(), Some(Value::Char(' '))), ("?a", Options::elisp(), Some(Value::Char('a'))),
        ("1+", base().with_leading_digit_symbols(true), sy("1+")), ("1-", Options::elisp(), sy("1-")), ("1/2", base().with_leading_digit_symbols(true), sy("1/2")), ("1.5.6", base().with_leading_digit_symbols(true), sy("1.5.6")),
        ("0x10", base().with_leading_digit_symbols(true), sy("0x10")), ("12e", base().with_leading_digit_symbols(true), sy("12e")),
        ("[a . b]", base(), Some(Value::cons(Value::symbol("a"), Value::symbol("b")))), ("[a b . c]", base(), Some(Value::append(vec![Value::symbol("a"), Value::symbol("b")], Value::symbol("c")))),
        ("[a +]", base(), Some(Value::list(vec![Value::symbol("a"), Value::symbol("+")]))), ("[a -]", Options::elisp(), Some(Value::Vector(vec![Value::symbol("a"), Value::symbol("-")].into()))),
        ("(a .;c\n b)", base(), Some(Value::cons(Value::symbol("a"), Value::symbol("b")))), ("(a -;c\n)", base(), Some(Value::list(vec![Value::symbol("a"), Value::symbol("-")]))),
        ("k:", base(), sy("k:")), ("k:", base().with_keyword_syntax(KeywordSyntax::ColonPostfix), kw("k")),
        ("nil:", base().with_keyword_syntax(KeywordSyntax::ColonPostfix).with_nil_symbol(NilSymbol::Special), kw("nil")),
        ("#:k", base(), None), ("#:k", base().with_keyword_syntax(KeywordSyntax::Octothorpe), kw("k")),
        ("#%k", base(), None), ("#%k", base().with_racket_hash_percent_symbols(true), sy("#%k")),
        ("?a", base(), sy("?a")), ("?a", base().with_char_syntax(CharSyntax::Elisp), Some(Value::Char('a'))),
        ("12ab", base().with_leading_digit_symbols(true), sy("12ab")), ("12", base().with_leading_digit_symbols(true), Some(Value::from(12))),
        ("1e3", base().with_leading_digit_symbols(true), Some(Value::from(1000.0))), ("15e-1", base().with_leading_digit_symbols(true), Some(Value::from(1.5))),
        ("1e3", base(), Some(Value::from(1000.0))), ("12", base(), Some(Value::from(12))),
        ("99999999999999999999a", base().with_leading_digit_symbols(true), sy("99999999999999999999a")), ("99999999999999999999a", base(), None), ("123456789012345678901234A", Options::elisp(), sy("123456789012345678901234A")),
        ("#o77777777777777777777778", base(), None), ("#b11111111111111111111111111111111111111111111111111111111111111111112", base(), None), ("18446744073709551616x", base(), None), ("18446744073709551616", base().with_leading_digit_symbols(true), Some(Value::from(18446744073709551616.0))),
        ("-1a", base().with_leading_digit_symbols(true), None), ("+12ab", base().with_leading_digit_symbols(true), None), ("-1.5.6", Options::elisp(), None), ("-5", base().with_leading_digit_symbols(true), Some(Value::from(-5))),
        ("+1e3", Options::elisp(), Some(Value::from(1000.0))), ("-", base().with_leading_digit_symbols(true), sy("-")), ("+", Options::elisp(), sy("+")),
        ("nil", Options::elisp(), Some(Value::Null)), ("t", Options::elisp(), sy("t")), ("#nil", base(), Some(Value::Nil)), ("()", base().with_nil_symbol(NilSymbol::Special), Some(Value::Null)),
        ("#t", base().with_t_symbol(TSymbol::True), Some(Value::Bool(true))), ("#f", Options::elisp(), Some(Value::Bool(false))),
        ("[a]", base(), Some(Value::list(vec![Value::symbol("a")]))), ("[a]", base().with_brackets(Brackets::Vector), Some(Value::Vector(vec![Value::symbol("a")].into()))),
        ("'a", base(), Some(Value::list(vec![Value::symbol("quote"), Value::symbol("a")]))), ("`a", Options::elisp(), Some(Value::list(vec![Value::symbol("quasiquote"), Value::symbol("a")]))),
        (",a", base(), Some(Value::list(vec![Value::symbol("unquote"), Value::symbol("a")]))), (",@a", Options::elisp(), Some(Value::list(vec![Value::symbol("unquote-splicing"), Value::symbol("a")]))),
    ]
}

fn whole(case: &str) -> Option<String> {
    // "whole:<tok>": with leading-digit symbols OFF a digit-initial token that is not a numeric literal is an error in every position
    let tok = &case[6..];
    for k in 0..4 {
        let text = ctx(tok, k);
        if let Ok(v) = from_str_custom(&text, base()) { return Some(format!("{:?} reads as {} although {:?} is neither a numeric literal nor (leading-digit symbols off) a symbol", text, v, tok)); }
    }
    None
}
const QUOTES: [(&str, &str); 4] = [("'", "quote"), ("`", "quasiquote"), (",", "unquote"), (",@", "unquote-splicing")];

/// "always": the n-th shorthand a parser reads expands like the first (300 in one list, 300 one after the other, value and datum API, stream source)
fn quotes(case: &str) -> Option<String> {
    let (sh, head) = QUOTES[case[7..].parse::<usize>().ok()?];
    let want = Value::list(vec![Value::symbol(head), Value::symbol("x")]);
    let n = 300;
    for o in [base(), Options::elisp()] {
        let flat = format!("({})", vec![format!("{}x", sh); n].join(" "));
        for (api, got) in [("value", from_str_custom(&flat, o.clone())), ("datum", lexpr::datum::from_str_custom(&flat, o.clone()).map(|d| d.value().clone())), ("reader", lexpr::from_reader_custom(flat.as_bytes(), o.clone()))] {
            match got {
                Ok(v) => if v != Value::list(vec![want.clone(); n]) { return Some(format!("a list of {} `{}x` reads as {:.60}... ({} API)", n, sh, v.to_string(), api)); },
                Err(e) => return Some(format!("a list of {} `{}x` fails: {} ({} API)", n, sh, e, api)),
            }
        }
        let seq = vec![format!("{}x", sh); n].join("\n");
        let mut p = lexpr::Parser::from_str_custom(&seq, o.clone());
        for i in 0..n {
            match p.expect_value() { Ok(v) if v == want => {}, Ok(v) => return Some(format!("`{}x` number {} read by one parser reads as {}", sh, i + 1, v)), Err(e) => return Some(format!("`{}x` number {} read by one parser fails: {}", sh, i + 1, e)) }
        }
        let mut p = lexpr::Parser::from_str_custom(&seq, o.clone());
        for i in 0..n {
            match p.expect_datum() { Ok(d) if d.value() == &want => {}, Ok(d) => return Some(format!("`{}x` number {} read by one parser (datum API) reads as {}", sh, i + 1, d.value())), Err(e) => return Some(format!("`{}x` number {} read by one parser (datum API) fails: {}", sh, i + 1, e)) }
        }
    }
    None
}

/// `with_keyword_syntaxes` SETS the recognised spellings (replaces whatever was enabled), `with_keyword_syntax` adds one
fn kwsets() -> Option<String> {
    let all = [KeywordSyntax::ColonPrefix, KeywordSyntax::ColonPostfix, KeywordSyntax::Octothorpe];
    for (bn, b) in [("new", Options::new()), ("default", Options::default()), ("elisp", Options::elisp()), ("all", Options::new().with_keyword_syntaxes(all.iter()))] {
        for mask in 0..8usize {
            let set: Vec<KeywordSyntax> = all.iter().enumerate().filter(|(i, _)| mask >> i & 1 == 1).map(|(_, k)| *k).collect();
            let o = b.clone().with_keyword_syntaxes(set.iter());
            for (i, k) in all.iter().enumerate() {
                if o.keyword_syntax(*k) != (mask >> i & 1 == 1) { return Some(format!("Options::{}().with_keyword_syntaxes({:?}).keyword_syntax({:?}) = {}", bn, set, k, o.keyword_syntax(*k))); }
            }
            for (i, (text, name)) in [(":foo", "foo"), ("foo:", "foo"), ("#:foo", "foo")].iter().enumerate() {
                let on = mask >> i & 1 == 1;
                match (from_str_custom(text, o.clone()), on) {
                    (Ok(v), true) => if v != Value::keyword(*name) { return Some(format!("{:?} under Options::{}().with_keyword_syntaxes({:?}) reads as {}", text, bn, set, v)); },
                    (Ok(v), false) => if v.is_keyword() { return Some(format!("{:?} under Options::{}().with_keyword_syntaxes({:?}) (spelling not in the set) reads as the keyword {}", text, bn, set, v)); },
                    (Err(e), true) => return Some(format!("{:?} under Options::{}().with_keyword_syntaxes({:?}) fails: {}", text, bn, set, e)),
                    (Err(_), false) => if i != 2 { return Some(format!("{:?} under Options::{}().with_keyword_syntaxes({:?}) fails", text, bn, set)); },
                }
            }
        }
    }
    None
}

fn check(case: &str) -> Option<String> {
    if case.starts_with("whole:") { return whole(case); }
    if case.starts_with("kwsets:") { return kwsets(); }
    if case.starts_with("quotes:") { return quotes(case); }
    if case.starts_with("ref:") {
        let tok = REF_TOKENS[case[4..].parse::<usize>().ok()?];
        for oi in 0..1536 {
            let (o, f) = optset(oi);
            let want = match reference(tok, &f) { Some(w) => w, None => continue };
            for k in [0usize, 2, 9] {
                if want.is_none() && k > 0 { continue; }
                let text = if k == 9 { format!("[x {}]", tok) } else { ctx(tok, k) };
                for (api, got) in [("value", from_str_custom(&text, o.clone())), ("datum", lexpr::datum::from_str_custom(&text, o.clone()).map(|d| d.value().clone())), ("reader", lexpr::from_reader_custom(text.as_bytes(), o.clone()))] {
                    match (&want, got) {
                        (None, Err(_)) => {}
                        (None, Ok(v)) => return Some(format!("{:?} should be an error under {:?}, got {} ({} API)", text, o, v, api)),
                        (Some(w), Ok(v)) => { let w = if k == 9 { if f[3] == 1 { Value::Vector(vec![Value::symbol("x"), w.clone()].into()) } else { Value::list(vec![Value::symbol("x"), w.clone()]) } } else { wrap(w.clone(), k) };
                                              if v != w { return Some(format!("{:?} under {:?} reads as {}, documented {} ({} API)", text, o, v, w, api)); } }
                        (Some(w), Err(e)) => return Some(format!("{:?} under {:?} fails ({}), documented {} ({} API)", text, o, e, w, api)),
                    }
                }
            }
        }
        return None;
    }
    let p: Vec<&str> = case.split(':').collect();
    let (tok, o, want) = table().into_iter().nth(p.get(1)?.parse::<usize>().ok()?)?;
    for k in 0..4 {
        if want.is_none() && k > 0 { continue; }
        let text = ctx(tok, k);
        // value API and location-tracking API: the options govern the same tokens in both
        for (api, got) in [("value", from_str_custom(&text, o.clone())), ("datum", lexpr::datum::from_str_custom(&text, o.clone()).map(|d| d.value().clone())), ("datum/slice", lexpr::datum::from_slice_custom(text.as_bytes(), o.clone()).map(|d| d.value().clone()))] {
            match (&want, got) {
                (None, Err(_)) => {}
                (None, Ok(v)) => return Some(format!("{:?} should be an error under {:?}, got {} ({} API)", text, o, v, api)),
                (Some(w), Ok(v)) => { let w = wrap(w.clone(), k); if v != w { return Some(format!("{:?} under {:?} reads as {}, documented {} ({} API)", text, o, v, w, api)); } }
                (Some(w), Err(e)) => return Some(format!("{:?} under {:?} fails ({}), documented {} ({} API)", text, o, e, w, api)),
            }
        }
    }
    None
}
