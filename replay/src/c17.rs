//! C17 witness family: only well-formed UTF-8 reaches a str; the printer's String is well-formed and equals the bytes written.
use crate::Family;
use lexpr::parse::Options;
use lexpr::Value;

pub fn family() -> Family { Family { name: "c17", cases, check } }

fn bad_inputs() -> Vec<Vec<u8>> {
    let mut out: Vec<Vec<u8>> = vec![];
    for bad in [&b"\xff"[..], b"\xc3", b"\xc3\x28", b"\xe2\x82", b"\xed\xa0\x80", b"\xf0\x9f\x92", b"\xc0\xaf", b"\x80", b"\xf8\x88\x80\x80\x80", b"\xa9", b"\xbf", b"\xc3\x41", b"\xe0\x80\xaf", b"\xf4\x90\x80\x80"] {
        for (pre, post) in [(&b"\""[..], &b"\""[..]), (b"sym", b" x"), (b"", b"sym"), (b"#:", b""), (b"#\\", b""), (b"(a \"x", b"\" b)"), (b"\"\\x41;", b"\""), (b":", b"k"), (b"a", b""), (b"?", b""), (b"?\\", b""), (b"(?", b" x)"), (b"#\\x", b""), (b"(#\\", b")"), (b"'", b""), (b"#(", b")"), (b"\"\\", b"\"")] {
            let mut v = pre.to_vec(); v.extend_from_slice(bad); v.extend_from_slice(post); out.push(v);
        }
    }
    out
}
fn good_texts() -> Vec<&'static str> {
    vec!["\u{3bb}", "\u{3bb}x \u{e9}\u{e9}", "(\u{3bb} . \u{1f600})", "\"\u{3bb}\\x3bb;\u{1f600}\\n\"", "#\\\u{3bb} #\\x1f600", "a\u{3bb}b", "-\u{3bb}", "#:\u{3bb}k", ":\u{e9}", "\u{e9}:", "\"a\u{e9}\\\\\u{3bb}\\\"\u{1f600}\"",
         "(.\u{3bb} +\u{e9})", "\u{3bb};c\u{e9}\n\u{e9}", "\"\u{7ff}\u{800}\u{ffff}\u{10000}\u{10ffff}\"", "\u{80}\u{7ff}", "#%\u{3bb}",
         "\"\\x80;\"", "\"\\xe9;\\xff;\"", "\"a\\xa1;\u{3bb}\\x7f;\\x100;\"", "\"\\xe9\"", "\"\\u00e9\\u00ff\"", "\"\\351\"", "#\\xe9 #\\xff", "?\\xe9", "?\u{e9}", "(\"\\xc3;\\xa9;\")", "\"\\N{U+e9}\"", "\"\\U000000e9\""]
}
fn values() -> Vec<Value> {
    vec![Value::symbol("\u{3bb}"), Value::from("\u{3bb}\u{1f600}\"\\\n"), Value::keyword("\u{e9}k"), Value::from('\u{3bb}'), Value::from('\u{1f600}'), Value::from('\u{80}'),
         Value::list(vec![Value::symbol("a\u{3bb}"), Value::from("\u{10ffff}")]), Value::Vector(vec![Value::from("\u{7ff}\u{800}"), Value::from('\u{ffff}')].into()), Value::from("\u{0}\u{7f}\u{80}")]
}

fn cases(_ob: &str) -> Vec<String> {
    let mut out = vec![];
    for i in 0..bad_inputs().len() { out.push(format!("bad:{}", i)); }
    for i in 0..good_texts().len() { out.push(format!("good:{}", i)); }
    for i in 0..values().len() { out.push(format!("print:{}", i)); }
    for i in 0..6 { out.push(format!("sweep:{}", i)); }
    for i in 0..8 { out.push(format!("names:{}", i)); }
    out
}
/// inputs whose ill-formed part sits in a second datum are legitimately accepted by a one-shot reader? No: trailing text is an error; nothing is exempt
fn parser_items_ok_hint(_bytes: &[u8]) -> bool { false }
fn strs_ok(v: &Value) -> bool {
    match v {
        Value::String(s) => std::str::from_utf8(s.as_bytes()).is_ok(), Value::Symbol(s) | Value::Keyword(s) => std::str::from_utf8(s.as_bytes()).is_ok(),
        Value::Cons(c) => strs_ok(c.car()) && strs_ok(c.cdr()), Value::Vector(es) => es.iter().all(strs_ok), _ => true,
    }
}
fn check(case: &str) -> Option<String> {
    let p: Vec<&str> = case.split(':').collect();
    let i = p.get(1)?.parse::<usize>().ok()?;
    match p[0] {
        "bad" => {
            let bytes = bad_inputs().into_iter().nth(i)?;
            for o in [Options::default(), Options::elisp()] {
                for src in 0..2 {
                    let mut parser_items: Vec<Result<Value, lexpr::parse::Error>> = vec![];
                    if src == 0 { let mut p = lexpr::Parser::from_slice_custom(&bytes, o.clone()); for _ in 0..6 { match p.next_value() { Ok(Some(v)) => parser_items.push(Ok(v)), Ok(None) => break, Err(e) => { parser_items.push(Err(e)); break; } } } }
                    else { let mut p = lexpr::Parser::from_reader_custom(&bytes[..], o.clone()); for _ in 0..6 { match p.next_value() { Ok(Some(v)) => parser_items.push(Ok(v)), Ok(None) => break, Err(e) => { parser_items.push(Err(e)); break; } } } }
                    // the one-shot entry points of both APIs on the same bytes
                    for (name, r) in [("lexpr::from_slice_custom", lexpr::from_slice_custom(&bytes, o.clone())), ("lexpr::datum::from_slice_custom", lexpr::datum::from_slice_custom(&bytes, o.clone()).map(|d| d.value().clone())),
                                      ("lexpr::datum::from_reader_custom", lexpr::datum::from_reader_custom(&bytes[..], o.clone()).map(|d| d.value().clone()))] {
                        if let Ok(v) = r { if !strs_ok(&v) { return Some(format!("input {:?}: {} returned a value with ill-formed UTF-8 in a str", String::from_utf8_lossy(&bytes), name)); }
                                           if !matches!(v, Value::Bytes(_)) && !parser_items_ok_hint(&bytes) { return Some(format!("input {:?} (not UTF-8) was accepted by {} as {}", String::from_utf8_lossy(&bytes), name, v)); } }
                    }
                    for it in &parser_items { if let Ok(v) = it { if !strs_ok(v) { return Some(format!("input {:?}: a value with ill-formed UTF-8 in a str was returned", String::from_utf8_lossy(&bytes))); } } }
                    // ill-formed bytes inside a string / symbol / keyword / character must not be accepted silently (Emacs unibyte strings come back as bytes)
                    if parser_items.iter().all(|r| r.is_ok()) {
                        let txt: String = parser_items.iter().map(|r| r.as_ref().unwrap().to_string()).collect::<Vec<_>>().join(" ");
                        let any_bytes = parser_items.iter().any(|r| matches!(r, Ok(Value::Bytes(_))));
                        if !any_bytes { return Some(format!("input {:?} (not UTF-8) was accepted as {} from source {}", String::from_utf8_lossy(&bytes), txt, src)); }
                    }
                }
            }
            None
        }
        "good" => {
            let t = *good_texts().get(i)?;
            for o in [Options::default(), Options::elisp()] {
                let show = |r: Result<Value, lexpr::parse::Error>| match r { Ok(v) => format!("Ok({})", v), Err(e) => format!("Err({:?})", e.classify()) };
                let all = |mut next: Box<dyn FnMut() -> Result<Option<Value>, lexpr::parse::Error>>| { let mut out = vec![]; for _ in 0..8 { match next() { Ok(Some(v)) => { if !strs_ok(&v) { out.push("ILL-FORMED".to_string()); } out.push(show(Ok(v))); } Ok(None) => break, Err(e) => { out.push(show(Err(e))); break; } } } out };
                let mut ps = lexpr::Parser::from_str_custom(t, o.clone());
                let a = all(Box::new(move || ps.next_value()));
                let mut pb = lexpr::Parser::from_slice_custom(t.as_bytes(), o.clone());
                let b = all(Box::new(move || pb.next_value()));
                if a != b || a.iter().any(|s| s == "ILL-FORMED") { return Some(format!("{:?}: &str source gives {:?}, byte-slice source gives {:?}", t, a, b)); }
            }
            None
        }
        "print" => {
            let v = values().into_iter().nth(i)?;
            for o in [None, Some(lexpr::print::Options::elisp()), Some(lexpr::print::Options::default())] {
                let (bytes, s) = match &o { None => (lexpr::to_vec(&v).ok()?, lexpr::to_string(&v).ok()?), Some(o) => (lexpr::to_vec_custom(&v, *o).ok()?, lexpr::to_string_custom(&v, *o).ok()?) };
                if std::str::from_utf8(&bytes).is_err() { return Some(format!("printing {:?} writes bytes that are not UTF-8", v)); }
                if s.as_bytes() != &bytes[..] { return Some(format!("to_string and to_vec disagree on {:?}", v)); }
            }
            None
        }
        "names" => {
            // every scalar from U+0080 to U+3FFF (every lead / continuation byte value occurs), and samples above, inside a symbol, a keyword and a string
            // read from a &str (the source that cuts `str`s out of its input without re-validating them): the name comes back whole and well-formed
            let mut ns: Vec<u32> = (0x80 + i as u32 * 0x7f0..0x80 + (i as u32 + 1) * 0x7f0).collect();
            ns.extend((0..64u32).map(|k| 0x4000 + (i as u32 * 64 + k) * 0x83));
            ns.extend((0..32u32).map(|k| 0x10000 + (i as u32 * 32 + k) * 0x1041));
            for n in ns {
                let c = match char::from_u32(n) { Some(c) => c, None => continue };
                if c.is_whitespace() && false { continue; }
                for o in [Options::default(), Options::elisp()] {
                    let name = format!("ab{}cd", c);
                    for (text, want) in [(name.clone(), Value::symbol(name.clone())), (format!("#:{}", name), Value::keyword(name.clone())), (format!("({} x)", name), Value::list(vec![Value::symbol(name.clone()), Value::symbol("x")])), (format!("\"{}\"", name), Value::string(name.clone()))] {
                        if text.starts_with("#:") && !o.keyword_syntax(lexpr::parse::KeywordSyntax::Octothorpe) { continue; }
                        match lexpr::from_str_custom(&text, o.clone()) {
                            Ok(v) => { if !strs_ok(&v) { return Some(format!("{:?} (U+{:04X}) read from a &str: a value with ill-formed UTF-8 in a str was returned", text, n)); }
                                       if v != want { return Some(format!("{:?} (U+{:04X}) read from a &str gives {:?}", text, n, v)); } }
                            Err(e) => return Some(format!("{:?} (U+{:04X}) read from a &str fails: {}", text, n, e)),
                        }
                        match lexpr::from_slice_custom(text.as_bytes(), o.clone()) { Ok(v) if v == want => {}, r => return Some(format!("{:?} (U+{:04X}) read from a byte slice gives {:?}", text, n, r.map_err(|e| e.to_string()))) }
                    }
                }
            }
            None
        }
        "sweep" => {
            // every scalar below U+0300 (and a few above): as a hex escape in a string read from &str, and as a printed character / one-character string
            let mut ns: Vec<u32> = (i as u32 * 0x80..(i as u32 + 1) * 0x80).collect();
            ns.extend([0x7ffu32 + i as u32, 0xd7ff - i as u32, 0xe000 + i as u32, 0xffff - i as u32, 0x10000 + i as u32, 0x10ffff - i as u32]);
            for n in ns {
                let c = match char::from_u32(n) { Some(c) => c, None => continue };
                for (o, texts) in [(Options::default(), vec![format!("\"\\x{:x};\"", n), format!("(a \"\u{3bb}\\x{:X};b\")", n)]), (Options::elisp(), vec![format!("\"\\x{:x}\"", n), format!("\"\\u{:04x}\"", n & 0xffff), format!("\"\\U{:08x}\"", n)])] {
                    for t in texts {
                        let mut ps = lexpr::Parser::from_str_custom(&t, o.clone());
                        for _ in 0..3 { match ps.next_value() { Ok(Some(v)) => { if !strs_ok(&v) { return Some(format!("{:?} read from a &str: a value with ill-formed UTF-8 in a str was returned", t)); } } _ => break } }
                    }
                }
                for v in [Value::from(c), Value::from(c.to_string()), Value::symbol(c.to_string()), Value::list(vec![Value::from(c), Value::from(format!("a{}b", c))])] {
                    for o in [lexpr::print::Options::default(), lexpr::print::Options::elisp()] {
                        let bytes = match lexpr::to_vec_custom(&v, o) { Ok(b) => b, Err(_) => continue };
                        let s = match lexpr::to_string_custom(&v, o) { Ok(s) => s, Err(_) => continue };
                        if std::str::from_utf8(&bytes).is_err() || std::str::from_utf8(s.as_bytes()).is_err() { return Some(format!("printing {:?} (U+{:04X}) writes bytes that are not UTF-8", v, n)); }
                        if s.as_bytes() != &bytes[..] { return Some(format!("to_string and to_vec disagree on {:?}", v)); }
                    }
                }
            }
            None
        }
        _ => None,
    }
}
