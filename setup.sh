#!/bin/bash
# Offline setup: warm Verus (first run unpacks its vstd cache) and build the replay binary.
cd "$(dirname "$0")"
export CARGO_NET_OFFLINE=true
mkdir -p .build evidence
cat > .build/warm.rs <<'RS'
use vstd::prelude::*;
verus! { proof fn warm() ensures 1 + 1 == 2int {} }
fn main() {}
RS
(cd .build && verus warm.rs >/dev/null 2>&1 || true)
python3 -c "from vx import replay; import sys; sys.exit(0 if replay.build_replay('/repo') else 0)" || true
exit 0
